char *reg; char val; char arr[4];
void main() {
  val = 3;
  load(val);
  store(val);
  csleep(2); csleep(4); csleep(7); csleep(12);
  asm("NOP", 1);
  asm("LDA #0");
  X = val; Y = X; val = Y;
}
