// subscripts that are variables, expressions and constants on arrays and on pointers (Y is saved)
char a, b, zp;
char tab[8];
char idx[8];
short sarr[4];
char *parr[4];
char *p;
short s;
char f(char v) { return v; }
void main()
{
    p = tab;
    zp = tab[a];
    zp = tab[a + 1];
    zp = tab[idx[X]];
    zp = tab[f(a)];
    tab[a] = zp;
    tab[a + 1] = zp;
    tab[b & 7] = a;
    zp = p[2];
    p[3] = zp;
    zp = p[a];
    p[a] = zp;
    zp = p[a + 1];
    zp = *p;
    *p = zp;
    s = sarr[a];
    sarr[a] = s;
    p = parr[a];
    parr[a] = p;
    parr[b] = tab;
    zp = tab[a] + 1;
    tab[a]++;
    tab[a] += 2;
    zp = tab[a] + tab[2];
    if (p[2]) zp = 2;
    zp = tab[X = a];
    zp = tab[Y = a];
    zp = tab[X++];
    zp = tab[--Y];
}
