#define SYS_CONST 4
char sys_var;
void sys_fn() { sys_var = SYS_CONST; }
