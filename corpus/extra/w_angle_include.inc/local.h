#define LOCAL_CONST 2
