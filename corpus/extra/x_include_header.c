#include "defs.h"
#include "sub/more.h"
char total;
void main() { total = BASE + EXTRA; helper_decl(); }
