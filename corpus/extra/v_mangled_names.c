// names that look like the compiler's own: mangled locals <function>_<depth>_<name>, the _<n> suffix of
// redeclared locals, literal temporaries, the locals block
char main_1_k, main_1_k_0;
char f_1_x;
char cctmp9;
char acc;
void f()
{
  char x;
  { char i_0; char i; i_0 = 1; i = i_0; acc = i; }
  { char i; i = 2; acc = i; }
  { char i; char i_1; i = 3; i_1 = i; acc = i_1; }
  x = acc;
}
void main()
{
  char k;
  { char j_1; char j; j_1 = 4; j = j_1; acc = j; }
  { char j; j = 5; acc = j; }
  k = acc;
  main_1_k = k;
  main_1_k_0 = f_1_x;
  f();
}
