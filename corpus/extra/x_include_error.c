#include "bad.h"
void main() { x = 1; }
