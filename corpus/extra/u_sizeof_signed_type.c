// sizeof(unsigned char) is rejected by the compiler (type text is compared to "char")
char cv;
void main()
{
    cv = sizeof(unsigned char);
}
