/* leading block
   comment with "quotes" and // inside */
char a; // trailing // comment
char b; /* inline */ char c;
#define LONG 1 + \
  2 + \
  3
void main() { a = LONG; /* multi
line */ b = a; // end
  c = '/'; }
