// constants on the left of operators, constant folding, shifts of intermediate results
char a, b, zp;
char tab[8];
const char ctab[4] = {1, 2, 3, 4};
char *p;
short s;
void main()
{
    zp = 12 & 10;
    zp = 12 | 3;
    zp = 12 ^ 5;
    zp = 1 << 3;
    zp = 64 >> 2;
    zp = ~5;
    zp = -(3);
    zp = 5 - tab[X];
    zp = 5 - tab[Y];
    zp = 5 - X;
    zp = 5 - Y;
    zp = 5 - (a + 1);
    zp = 5 - a;
    zp = 5 + X;
    zp = 5 & Y;
    zp = (b + 1) - (5 - (a + 1));
    p = ctab - 1;
    p = ctab + 2;
    zp = ctab & 255;
    s = ctab & 255;
    zp = s & 255;
    zp = (a + 1) << 2;
    zp = (a + 1) >> 1;
    zp = (b + 1) + ((a + 1) << 2);
    zp = (b & 3) + (a << 2);
    zp = (a + 1) - ((b + 2) - tab[X]);
    if (5 == a) zp = 1;
    if (5 > a) zp = 2;
    if (5 <= a) zp = 3;
    if (0 != a) zp = 4;
    if ((a + 1) == 0) zp = 5;
    if ((a & 4) != 0) zp = 6;
    s = ctab[2];
    s = tab[X];
    s = tab[Y];
    s = a;
    load(X); store(X);
    load(Y); store(Y);
    load(a); store(tab[X]);
}
