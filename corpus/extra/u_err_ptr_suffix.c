// only "& 255" and ">> 8" are accepted after a reference with an offset
const char tab[4] = {1, 2, 3, 4};
const char lo = tab + 1 & 255;
const char bad = tab + 1 & 254;
char r;
void main() { r = lo + bad; }
