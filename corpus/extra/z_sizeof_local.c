char out; char garr[6];
void main() {
  const char tab[] = {1, 2, 3};
  char n0 = sizeof(tab);
  char m0 = sizeof(garr);
  out = tab[0] + n0 + m0;
  {
    const char tab[] = {1, 2, 3, 4, 5};
    char n1 = sizeof(tab);
    char buf[sizeof(garr)];
    buf[0] = n1;
    out = buf[0] + tab[1];
  }
}
