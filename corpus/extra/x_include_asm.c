char flag;
#include "routines.asm"
void main() { flag = 1; asm("JSR routine"); }
