char v;
void main() { v = 1; while (1); }
