char *s;
void f(char *a, char *b) { s = a; s = b; }
void main() { f("aaaa", "bbbb"); }
