// functions that are only declared (their code is linked from assembler elsewhere), declared and
// defined later, and called from several places
void ext_a();
char ext_b(char v);
void later();
char later_value(char v);
char x, y;
void helper() { ext_a(); x = ext_b(y); later(); }
void later() { x++; }
char later_value(char v) { return v + 1; }
void main()
{
  helper();
  ext_a();
  if (ext_b(3)) later();
  y = later_value(x);
}
