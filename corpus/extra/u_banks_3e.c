// 3E bankswitching: banked functions called from bank 0 and from their own bank, RAM in banks
#define __3E__ 1
bank1 char ram1[16];
bank2 char ram2[8];
bank1 char single1;
char zp;
char *const ROM_SELECT = 0x3f;
bank1 char get1(char i) { return ram1[X = i]; }
bank1 void fill1(char v)
{
    for (X = 0; X != 16; X++) ram1[X] = v;
    for (Y = 0; Y != 16; Y++) ram1[Y] = v;
    single1 = v;
    zp = get1(3);
    ram1[2] = single1;
}
bank2 void fill2(void)
{
    Y = 3;
    ram2[Y] = zp;
    X = ram2[Y];
    ram2[X]++;
    zp = ram2[1] + ram2[X];
}
void main()
{
    fill1(7);
    fill2();
    zp = get1(2) + 1;
}
