// constant expressions: both outcomes of every logical and relational operator, ternaries
const char t_and = 1 && 2;
const char f_and = 1 && 0;
const char t_or = 0 || 3;
const char f_or = 0 || 0;
const char t_gt = 3 > 2;
const char f_gt = 2 > 3;
const char t_ge = 3 >= 3;
const char f_ge = 2 >= 3;
const char t_lt = 2 < 3;
const char f_lt = 3 < 2;
const char t_le = 3 <= 3;
const char f_le = 4 <= 3;
const char t_eq = 3 == 3;
const char f_eq = 3 == 4;
const char t_ne = 3 != 4;
const char f_ne = 3 != 3;
const char tern1 = 1 ? 10 : 20;
const char tern0 = 0 ? 10 : 20;
const char tern_nested = (2 > 1) ? (0 ? 1 : 2) : 3;
const char notv = !0;
const char bnotv = ~0x0f & 0xff;
const char negv = -(-5);
const char mix = (1 << 3 | 1) ^ 3;
const char quot = 100 / 7 * 2 - 1;
char sized[(3 > 2) ? 4 : 8];
aligned(256) const char page[2] = {(1 && 1) + (0 || 0), 5 > 4};
unsigned char uret(void) { return t_gt; }
signed char sret(signed char v, unsigned char w) { return v + w; }
char r;
void main()
{
    r = t_gt + f_gt + t_ge + f_ge + t_lt + f_lt + t_le + f_le;
    r += t_eq + f_eq + t_ne + f_ne + tern1 + tern0 + tern_nested;
    r += notv + bnotv + negv + mix + quot + page[1];
    sized[0] = uret() + sret(1, 2);
}
