unsigned char a, b, c; signed char sa, sb; short s, t; unsigned short u;
void main() {
  a = b + c; a = b - c; a = b & c; a = b | c; a = b ^ c; a = b << 2; a = b >> 3; a = ~b; a = -b; a = !b;
  a += 1; a -= 2; a &= 3; a |= 4; a ^= 5; a <<= 1; a >>= 1;
  a++; ++a; a--; --a; b = a++; b = --a;
  c = a < b; c = a <= b; c = a > b; c = a >= b; c = a == b; c = a != b;
  if (sa < sb) c = 1; if (sa >= 0) c = 2; if (sa < 0) c = 3; if (sa > sb) c = 4; if (sa <= sb) c = 5;
  c = (a && b) || (!a && !b); c = a ? b : c; c = (a, b);
  s = t + 1; s = t - 1; s = t & 0xff00; s = t | 1; s = t ^ t; s = t << 8; s = t >> 8; s = -t; s += t; s -= 2; s++; s--;
  u = s; if (s < t) u = 1; if (u >= 1000) u = 0; if (s == 0x1234) u = 2; if (s != t) u = 3;
  a = sizeof(s); a = sizeof(char); a = sizeof(short); a = sizeof(a);
  X = a; Y = b; a = X; b = Y; X++; Y--; X = Y; a = X + 1; if (X == 3) Y = 4; if (Y != 0) X = 0;
}
