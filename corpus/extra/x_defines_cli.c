#ifdef FEATURE
char with_feature;
#endif
#ifndef MISSING
char without_missing;
#endif
char level;
void main() { level = LEVEL; }
