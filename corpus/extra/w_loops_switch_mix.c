char i, j, k; char grid[16];
void scan() {
  for (i = 0; i != 4; i++) {
    switch (grid[X]) {
      case 0: continue;
      case 1: j++; break;
      case 2: if (j > 3) continue; k++; break;
      default: break;
    }
    do { k--; if (k == 2) break; if (k == 1) continue; } while (k);
    while (j) { j--; if (j == 5) break; }
  }
}
void main() { scan(); again: i++; if (i < 3) goto again; else goto done; done: ; }
