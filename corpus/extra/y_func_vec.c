char z;
void h0() { z = 0; }
void h1() { z = 1; }
void (*handlers[2])() = {h0, h1}
void main() { h0(); h1(); }
