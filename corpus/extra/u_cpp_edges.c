// preprocessor corner cases: skipped includes with comments, elif chains, undef of unknown names
#define CAT(a,b) a##b
#define LEVEL 2
#undef NEVER_DEFINED
#undef LEVEL
#define LEVEL 1
#if 0
#include "missing_file.h" /* a comment after the name */
#include "missing_too.h"
#include <missing_sys.h> /* comment opened here
   and closed there */
#elif LEVEL == 0
char level1;
#elif !LEVEL
char level2;
#elif LEVEL == 1
char level3;
#elif LEVEL == 4
char level4;
#else CAT(/,/)
char levelx;
#endif CAT(/,/)
#ifdef LEVEL
#ifndef OTHER
#if !0 == LEVEL == 1
char deep;
#else
char shallow;
#endif
#endif
#endif
#ifndef LEVEL
char nolevel;
#else
char haslevel;
#endif
#ifdef NOPE
char nope;
#else
char yep;
#endif
void main()
{
    level3 = 1; deep = CAT(1,2);
}
#ifdef OTHER
char tail;
#endif