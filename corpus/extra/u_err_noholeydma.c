// noholeydma attribute: only accepted when compiled for the Atari 7800
noholeydma const char gfx[4] = {1, 2, 3, 4};
char r;
void main() { r = gfx[X]; }
