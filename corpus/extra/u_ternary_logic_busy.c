// ternary, && and || and ! evaluated while the accumulator already holds a value; constant conditions
char a, b, c, zp;
char tab[8];
short s;
void main()
{
    zp = (a + 1) + ((0, b) ? c : 2);
    zp = (a + 1) + ((0, b) ? tab[X] : tab[Y]);
    zp = (a + 1) + (b && c);
    zp = (a + 1) + (b || c);
    zp = (a + 1) + (tab[X] && tab[Y]);
    zp = (a + 1) + (tab[Y] || b);
    zp = (a + 1) + !b;
    zp = (a + 1) + !tab[X];
    zp = (a + 1) + (X && Y);
    zp = (a + 1) + ((b + 1) && c);
    zp = 1 ? a : b;
    zp = 0 ? a : b;
    zp = (1 == 2) ? a : b;
    zp = (3 > 2) ? a + 1 : b + 1;
    zp = (2 >= 2) ? 5 : 6;
    zp = (1 < 2) ? 5 : 6;
    zp = (1 <= 0) ? 5 : 6;
    zp = (1 != 1) ? 5 : 6;
    zp = (1 && 0) ? a : b;
    zp = (0 || 1) ? a : b;
    zp = (1 && a) ? b : c;
    zp = (0 || a) ? b : c;
    zp = (0 && a) ? b : c;
    zp = (1 || a) ? b : c;
    zp = !0;
    zp = !5;
    zp = !(1 == 1);
    zp = (2 > 1);
    zp = b ? c : 2;
    if (1) zp = 1; else zp = 2;
    if (0) zp = 3; else zp = 4;
    if (s) zp = 9; else zp = 10;
    if (tab[X]) zp = 11;
    if (tab[Y]) zp = 12;
    if (a && (b ? c : 0)) zp = 13;
}
