char a0, a1, a2, a3, a4, a5, a6, a7, a8, a9;
short b0, b1, b2, b3, b4;
char c0[4], c1[8], c2[2];
char *d0, *d1, *d2;
const char e0[] = {1, 2, 3, 4};
const char e1[] = {5, 6};
const char e2 = 9;
unsigned char f0; signed char f1; unsigned short f2;
void main() {
  a0 = 1; a1 = a0 + 1; a2 = a1 + 1; a3 = a2; a4 = a3; a5 = e0[X]; a6 = e1[Y]; a7 = e2; a8 = c0[1]; a9 = c1[X];
  b0 = a0; b1 = b0 + 300; b2 = b1 - 1; b3 = b2; b4 = b3 + b0;
  d0 = c0; d1 = c1; d2 = c2;
  f0 = a9; f1 = -3; f2 = 65535;
}
