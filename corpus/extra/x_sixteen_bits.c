short s1, s2, s3; unsigned short u1; char lo, hi; char *ptr; char arr[16];
void main() {
  s1 = 1000; s2 = s1 << 2; s3 = s2 >> 8; u1 = s1 + s2;
  lo = s1; hi = s1 >> 8; s1 = lo | (hi << 8);
  ptr = arr; ptr += 3; lo = ptr[Y]; lo = *ptr; ptr++;
  if (s1 < s2) s3 = 0; else if (s1 >= u1) s3 = 1;
  s1++; s2--; s3 += 258; lo = sizeof(arr); hi = sizeof(short);
}
