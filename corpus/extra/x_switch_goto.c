char state; char acc;
void step() {
  switch (state) {
    case 0: acc = 1; break;
    case 1: acc += 2;
    case 2: acc += 3; break;
    default: acc = 0;
  }
}
void main() {
again:
  step();
  state++;
  if (state < 4) goto again;
  do { acc--; } while (acc);
}
