// operators inside the initial value of LOCAL variables
char g, h;
char tab[4];
char id(char v) { return v; }
char five(void) { return 5; }
void main()
{
    char a = 3 * 2;
    char b = 8 / 2;
    char c = g + h;
    char d = g - h;
    char e = g & h;
    char f = g | h;
    char i = g ^ h;
    char j = g >> 1;
    char k = g << 2;
    char l = g == h;
    char m = g != h;
    char n = g > h;
    char o = g >= h;
    char p = g < h;
    char q = g <= h;
    char r = g && h;
    char s = g || h;
    char t = g ? h : 3;
    char u = g--;
    char v = g++;
    char w = --g;
    char x = ++h;
    char y = -g;
    char z = !g;
    char aa = ~g;
    char bb = *tab;
    char cc = sizeof(tab);
    char dd = id(g);
    char ee = h = 2;
    char ff = (g + 1) & 2;
    char gg = sizeof(int);
    char hh = five();
    char *pp = &g;
    g = a + b + c + d + e + f + i + j + k + l + m + n + o + p + q;
    h = r + s + t + u + v + w + x + y + z + aa + bb + cc + dd + ee + ff + gg + hh;
    *pp = 1;
}
