// an index that itself needs Y addressing cannot be loaded into Y
char tab[8];
char idx[8];
char zp;
void main() { zp = tab[idx[X]]; zp = tab[idx[Y]]; }
