// assignments to and from the X and Y registers, alone and nested in larger expressions
char a, b, c, zp;
char tab[8];
char big[8];
char *p;
short sarr[4];
char *parr[4];
char retx(void) { return X; }
char rety(void) { return Y; }
void main()
{
    p = tab;
    X = 300;
    Y = -200;
    X = a;
    Y = b;
    X = tab[X];
    Y = tab[Y];
    X = tab[Y];
    Y = tab[X];
    X = p[Y];
    X = Y;
    Y = X;
    X = X;
    Y = Y;
    X = a + 1;
    Y = b + 1;
    zp = (a + 1) + (X = tab[X]);
    zp = (a + 1) + (X = p[Y]);
    zp = (a + 1) + (X = Y);
    zp = (a + 1) + (X = (b + 2));
    zp = (a + 1) + (Y = tab[Y]);
    zp = (a + 1) + (Y = X);
    zp = (a + 1) + (Y = (b + 2));
    zp = (a + 1) + (Y = tab[X]);
    a = X;
    b = Y;
    tab[X] = X;
    tab[Y] = Y;
    tab[Y] = X;
    tab[X] = Y;
    sarr[Y] = X;
    sarr[X] = Y;
    parr[Y] = X;
    zp = (a + 1) + (tab[X] = X);
    zp = (a + 1) + (tab[Y] = Y);
    zp = (a + 1) + (tab[Y] = X);
    zp = (a + 1) + (tab[X] = Y);
    zp = (a + 1) + (c = X);
    zp = (a + 1) + (c = Y);
    p[Y] = X;
    zp = retx() + rety();
}
