// bank specification on an inline function: refused
char r;
inline bank1 void f() { r = 1; }
void main() { f(); }
