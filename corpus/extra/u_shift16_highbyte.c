// high byte extraction and 8-bit shifts on arrays of shorts / pointers, alone and with the accumulator busy
short sarr[4];
char *parr[4];
char tab[8];
const char ctab[4] = {1, 2, 3, 4};
short s, t;
char a, b, zp;
char *p;
void main()
{
    zp = sarr[X] >> 8;
    zp = sarr[Y] >> 8;
    zp = parr[X] >> 8;
    zp = parr[Y] >> 8;
    zp = (a + 1) + (sarr[X] >> 8);
    zp = (a + 1) + (parr[Y] >> 8);
    zp = sarr[2] >> 8;
    zp = s >> 8;
    zp = p >> 8;
    zp = (a + 1) + (p >> 8);
    zp = ctab >> 8;
    zp = (a + 1) + (ctab >> 8);
    s = tab[X] << 8;
    s = tab[Y] << 8;
    s = a << 8;
    s = X << 8;
    s = Y << 8;
    s = (a | 1) | (tab[X] << 8);
    s = (a & 7) | (b << 8);
    s = (a << 8) | b;
    s = (tab[X] << 8) | tab[Y];
    zp = tab[X] << 8;
    zp = a >> 8;
    t = s >> 8;
    zp = (ctab >> 8) + 1;
    zp = (ctab >> 8) - 1;
    zp = (a + 1) + ((ctab >> 8) + 2);
    zp = (a + 1) - ((ctab >> 8) - 2);
    zp = (a + b) - ((ctab >> 8) + 1);
}
