// classic bankswitching: calls from bank 0 to banks, inside a bank, with and without parameters
char zp;
bank1 const char table1[4] = {1, 2, 3, 4};
bank1 char peek1(char i) { return table1[X = i]; }
bank1 void poke1(char a, char b) { zp = a + b; }
bank1 void inner1(void)
{
    poke1(1, 2);
    zp += peek1(3);
}
bank2 void other2(void) { zp++; }
bank3 {
    const char table3[2] = {9, 8};
    void block3(char v) { zp = table3[X = v]; }
    char ret3(void) { return zp; }
}
void local0(char v) { zp = v; }
void main()
{
    inner1();
    other2();
    poke1(3, zp);
    zp = peek1(1) + 2;
    block3(1);
    zp = ret3();
    local0(zp);
}
