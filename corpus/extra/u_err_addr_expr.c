// address-of something that is not a variable
char c;
char *p;
void main() { p = &c; p = &(c + 1); }
