// interrupt routine inside a bank block: refused
char r;
bank2 {
void interrupt nmi() { r++; }
}
void main() { r = 0; }
