// non-ASCII text in comments (日本語のコメント、ééééééééééééééééééééééééé), strings and character constants
char *msg;
char c, d;
const char name[] = "Émile Zola – naïve café";
const char accents[] = {'é', 'è', 'ê', 'ë', 'à', 'â', 'ä', 'ù', 'û', 'ü', 'î', 'ï', 'ô', 'ö', 'ç', 'ñ',
                        'É', 'È', 'Ê', 'Ë', 'À', 'Â', 'Ä', 'Ù', 'Û', 'Ü', 'Î', 'Ï', 'Ô', 'Ö', 'Ç', 'Ñ'};
void main()
{
  msg = "héllo wörld ✓ 日本語";
  c = 'é'; // ààààààààààààààààààààààààààààààààààààààà
  msg = "ünïcödé ünïcödé ünïcödé ünïcödé ünïcödé ünïcödé";
  d = name[X];
  if (c == 'ß' || d == accents[Y]) msg = "égal";
  c = d;
  c = 'é' + 'è'; d = '€' - 'ß';
  X = 'ü'; Y = 'ö'; c = '日';
  c = d;
}
