char a, b;
void nop() { }
inline void inop() { }
char one() { return 1; }
inline char ione() { return 1; }
void interrupt ihandler() { }
bank1 void bnop() { }
void only_semicolon() { ; }
void only_block() { { } }
void only_label() { end: ; }
void blocks() {
  if (a) { } else { }
  if (a) ; else ;
  while (a) { }
  do { } while (b);
  for (a = 0; a < 3; a++) { }
  for (a = 0; a < 3; a++) ;
  switch (a) { default: ; }
  switch (a) { case 1: case 2: break; }
  switch (a) { }
  switch (b) { case 1: }
  switch (b) { case 1: case 2: }
}
void main() { nop(); inop(); inop(); a = one(); b = ione(); bnop(); only_semicolon(); only_block(); only_label(); blocks(); }
