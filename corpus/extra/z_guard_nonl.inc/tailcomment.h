char other;
// end of header