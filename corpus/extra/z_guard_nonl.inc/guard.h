#ifndef GUARD_H
#define GUARD_H
char counter;
#endif