; codesize: 4
; bank: 3
r3
	LDA #3
	RTS
