; top level routine
rtop
	LDA #0
	RTS
