; bank one routine
r1
	LDA #1
	RTS
