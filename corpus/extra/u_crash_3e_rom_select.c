// 3E scheme: calling a banked function from bank 0 needs a ROM_SELECT variable; when the
// program does not declare one, get_variable("ROM_SELECT") unwraps None (compile.rs:233)
#define __3E__ 1
bank1 void f() {}
void main() { f(); }
