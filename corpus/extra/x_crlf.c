char a;
#define V 3
void main() {
  a = V; /* crlf */
  a++; // eol
}
