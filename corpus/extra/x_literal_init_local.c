char *q;
void show(char *a, char *b) { q = a; q = b; }
void main() {
  char *m = "first";
  char *n = "second";
  show(m, n);
  show("third", "fourth");
  q = "fifth";
}
