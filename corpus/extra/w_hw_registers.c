unsigned char * const VSYNC = 0x00;
unsigned char * const WSYNC = 0x02;
unsigned char * const COLUBK = 0x09;
unsigned char * const INPT4 = 0x3c;
unsigned char * const SWCHA = 0x280;
char joy; char color;
void kernel() {
  strobe(WSYNC);
  *COLUBK = color;
  strobe(WSYNC);
  csleep(6);
  *COLUBK = 0;
}
void main() {
  color = 0x1e;
  while (1) {
    *VSYNC = 2; strobe(WSYNC); strobe(WSYNC); *VSYNC = 0;
    joy = *SWCHA;
    if (!(joy & 0x80)) color++;
    if (*INPT4 & 0x80) color--;
    load(color); store(*COLUBK);
    kernel();
  }
}
