// comparisons with zero right after the value was computed (flags reuse), signed and unsigned
char a, b, zp;
signed char sa, sb;
char tab[8];
signed char stab[8];
void main()
{
    zp = a + b;
    if (zp > 0) b = 1;
    zp = a - b;
    if (zp >= 0) b = 2;
    sa = sb - 3;
    if (sa < 0) b = 3;
    sa = sb + 3;
    if (sa <= 0) b = 4;
    sa = sb - a;
    if (sa > 0) b = 5;
    tab[X] = a;
    if (tab[X] > 0) b = 6;
    stab[Y] = sa;
    if (stab[Y] < 0) b = 7;
    stab[X] = sa - 1;
    if (stab[X] >= 0) b = 8;
    if ((a + 1) > 0) b = 9;
    if ((sa - 1) < 0) b = 10;
    if ((sa - sb) <= 0) b = 11;
    if ((sa & 15) >= 0) b = 12;
    a++;
    if (a > 0) b = 13;
    sa--;
    if (sa >= 0) b = 14;
    tab[X]++;
    if (tab[X] < 0) b = 15;
    if (sa > 0) b = 16;
    if (sa <= 0) b = 17;
    if (a <= 0) b = 18;
    if (a > 0) b = 19;
    if (stab[X] > 0) b = 20;
    if (stab[Y] <= 0) b = 21;
}
