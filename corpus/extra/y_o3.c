char a, b; short s;
char f(char x) { return x + 1; }
void main() { a = 1; b = a; a = b; s = a; if (a == b) a = f(b); for (X = 0; X < 3; X++) b += X; while (a) a--; }
