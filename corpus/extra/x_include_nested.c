#include "outer.h"
void main() { deep = OUTER + INNER; }
