#include <sys.h>
#include "local.h"
char v;
void main() { v = SYS_CONST + LOCAL_CONST; sys_fn(); }
