char m;
void main() {
  asm("LDA #1", 2);
  asm("STA m", 2);
  asm("NOP");
  asm("; comment only", 0);
  m = 2;
  asm("label1", 0);
  asm("JMP label1", 3);
}
