#define MAX(a, b) ((a) > (b) ? (a) : (b))
#define SQ(x) ((x) + (x))
#define CAT(a, b) a##b
#define CALL(f, x) f(x)
#define STR "s"
char v1, v2; char *ps;
char id(char x) { return x; }
void main() { v1 = MAX(v1, v2); v2 = SQ(MAX(1, 2)); v2 = CALL(id, SQ(2)); ps = STR; v1 = MAX((v1 + 1), (v2 - 1)); }
