// global pointer initialisers: address-of, offsets, low and high bytes
const char tab[4] = {1, 2, 3, 4};
char buf[8];
char single;
const char *p0 = tab;
const char *p1 = &buf;
const char *p2 = tab + 2;
const char *p3 = tab - 1;
const char *p4 = &single;
const char lo = tab & 255;
const char hi = tab >> 8;
const char lo3 = tab + 3 & 255;
const char hi3 = tab + 3 >> 8;
const char lom = tab - 3 & 0xff;
const char him = tab - 3 >> 8;
const char lob = &buf & 255;
const char hib = &buf >> (4 + 4);
char r;
void main()
{
    r = lo + hi;
    r += lo3 + hi3 + lom + him + lob + hib;
    r = p0[1] + p2[X] + p3[Y];
    p1[2] = r;
    p4[0] = 1;
}
