char x;
char y
char z;
