// an index read through a pointer cannot be loaded into Y
char tab[8];
char *p;
char zp;
void main() { p = tab; zp = p[Y]; zp = tab[p[Y]]; }
