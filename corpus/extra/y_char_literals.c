char c; char *s;
void main() {
  c = 'a'; c = '\n'; c = '\t'; c = '\\'; c = '\''; c = '\0'; c = ' ';
  s = "esc: \n \t \\ \" \0 end"; s = "//not a comment"; s = "/* nor this */"; s = "#define X"; s = "a" "b";
  s = "";
}
