// ++ and -- on shorts, pointers and arrays of shorts, as statements and inside busy expressions
short s, t;
short sarr[4];
char *parr[4];
char tab[8];
char *p;
char a, zp;
void main()
{
    s++; s--; ++s; --s;
    p++; p--;
    sarr[2]++; sarr[1]--;
    parr[2]++; parr[1]--;
    sarr[X]++; sarr[X]--;
    parr[X]++; parr[X]--;
    sarr[Y]++;
    tab[X]++; tab[Y]--; tab[3]++; tab[X]--;
    zp = (a + 1) + tab[X]--;
    zp = (a + 1) + --tab[X];
    t = (a & 3) | --s;
    t = (a & 3) | s--;
    t = (a & 3) | --sarr[X];
    zp = (a + 1) + (--s & 255);
    zp = a + (--sarr[X] & 255);
    t = s++ + 1;
    p = tab;
    zp = p[Y] + --p[Y];
    for (s = 300; s != 0; s--) zp++;
    for (X = 0; X != 4; X++) sarr[X]--;
}
