// an inline function that is only declared cannot be expanded
char r;
inline void later(char v);
void main() { r = 1; later(2); }
