/* commentaire accentué € 😀 */
char a; // déjà vu
char *s;
void main() { a = 1; s = "café"; }
