// comparing the X and Y registers with variables, arrays, expressions and each other
char a, b, zp;
char tab[8];
const char ctab[4] = {1, 2, 3, 4};
char f(void) { return a; }
void main()
{
    if (X < tab[Y]) zp = 1;
    if (Y >= tab[X]) zp = 2;
    if (X == tab[X]) zp = 3;
    if (Y != tab[Y]) zp = 4;
    if (X > a) zp = 5;
    if (Y <= b) zp = 6;
    if (X < 5) zp = 7;
    if (Y > 5) zp = 8;
    if (X == Y) zp = 9;
    if (Y < X) zp = 10;
    if (X != (a + 1)) zp = 11;
    if (Y == (b + 1)) zp = 12;
    if (X < f()) zp = 13;
    if (a < X) zp = 14;
    if (tab[Y] >= X) zp = 15;
    if (5 > Y) zp = 16;
    if ((a + 1) < Y) zp = 17;
    if (X <= ctab[2]) zp = 18;
    zp = (a + 1) + (X < (b + 2));
    zp = (a + 1) + (Y >= (b + 2));
    zp = (a + 1) + (X == b);
    zp = (a + 1) + (X > 3);
    X--;
    if (X > 0) zp = 19;
    Y--;
    if (Y >= 0) zp = 20;
    X++;
    if (X <= 0) zp = 21;
    Y++;
    if (Y < 0) zp = 22;
    if (X) zp = 23;
    if (!Y) zp = 24;
    while (X) X--;
    do { Y++; } while (Y < tab[X]);
}
