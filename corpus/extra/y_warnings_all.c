char a; short s; char arr[4];
void unused_fn() { a = 1; }
void main() { a = 256; a = -200; s = 100000; a = s; arr[4] = 1; a = arr[200]; if (a > 300) a = 0; a = a << 9; }
