// an array of pointers only accepts references with an offset
const char tab[4] = {1, 2, 3, 4};
const char *ptrs[] = {tab, tab + 1, tab & 255};
char r;
char *q;
void main() { q = ptrs[X]; r = q[Y]; }
