// negative array size in a parameter declaration
char r;
void f(char ok[2], char bad[-2]) { r = ok[1] + bad[0]; }
void main() { r = 0; }
