; assembler routines
routine
	LDA #1 ; "quoted" // not a comment
	STA flag
	RTS
