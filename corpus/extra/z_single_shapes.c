char one_elem[1]; const char ro1[1] = {7}; const char *ptrs1[1] = {"x"}; const char empty_str[] = "";
char c1; short s1; char *pp;
char id1(char p) { return p; }
void main() { one_elem[0] = ro1[0]; pp = ptrs1[0]; c1 = pp[Y]; c1 = empty_str[0]; c1 = id1(id1(id1(1))); s1 = 0; s1 = -1; c1 = -128; c1 = 255; s1 = 32767; s1 = -32768; }
