char small; short wide;
void main() { small = 300; wide = 70000; small = wide; }
