char c;
void a() { l: goto l; }
void b() { first: c++; goto second; second: c--; goto first; }
void main() { if (c) a(); else b(); }
