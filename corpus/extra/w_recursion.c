char depth; char acc2;
void down() { if (depth) { depth--; down(); } }
char fact(char n) { if (n == 0) return 1; return fact(n - 1) + n; }
void ping();
void pong() { if (acc2 < 10) { acc2++; ping(); } }
void ping() { if (acc2 < 10) { acc2++; pong(); } }
void main() { depth = 5; down(); acc2 = fact(4); ping(); }
