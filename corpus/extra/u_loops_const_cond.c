// loops with empty, constant and register conditions
char a, zp;
short s;
char tab[4];
void main()
{
    for (; a != 9;) a++;
    for (a = 0; 1; a++) { if (a == 4) break; }
    for (a = 0; 0; a++) zp = 1;
    while (1) { zp--; if (!zp) break; }
    while (0) zp = 2;
    do { zp++; } while (0);
    do { zp++; if (zp == 200) break; } while (1);
    do zp++; while (zp != 210);
    while (X) X--;
    while (tab[X]) X++;
    while (tab[Y]) Y++;
    while (s) s--;
    for (X = 3; X; X--) tab[X] = 0;
    for (Y = 0; tab[Y]; Y++) ;
    while (a--) ;
    while (--zp) ;
    do ; while (++a != 7);
    for (a = 0, zp = 1; a != 3; a++, zp++) ;
}
