// switch on expressions, registers and array elements; grouped case labels; switch inside loops
char a, b, zp;
char tab[8];
char f(char v) { return v; }
void main()
{
    switch (a + 1) {
    case 1: case 2: zp = 1; break;
    case 3: zp = 2;
    case 4: case 5: case 6: zp = 3; break;
    default: zp = 4;
    }
    switch (X) {
    case 0: zp = 5; break;
    case 1: case 2: zp = 6; break;
    }
    switch (Y) {
    case 7: zp = 7;
    }
    switch (tab[X]) {
    case 'a': case 'b': zp = 8; break;
    case 0x10: zp = 9; break;
    default: break;
    }
    switch (f(a)) {
    case 1: zp = 10; break;
    case 2: case 3: zp = 11; break;
    default: zp = 12; break;
    }
    switch (a & 3) {
    case 0: zp = 13; break;
    case 1: case 2: zp = 14; break;
    case 3: zp = 15;
    }
    for (X = 0; X != 4; X++) {
        switch (tab[X]) {
        case 0: continue;
        case 1: case 2: zp++; break;
        default: zp--;
        }
        if (zp == 9) break;
    }
    switch (b) {
    default: zp = 16;
    }
}
