// a list of values cannot initialise a scalar
const char tab[2] = {1, 2};
const char scalar = {1, 2};
char r;
void main() { r = tab[X] + scalar; }
