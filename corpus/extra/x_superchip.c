superchip char sc0; superchip char sc1[8]; char zp;
void main() { sc0 = 1; zp = sc0; sc1[X] = zp; zp = sc1[Y]; sc0++; }
