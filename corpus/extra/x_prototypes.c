char g1;
void fn1();
void fn2(char a);
char fn3(char a, char b);
void fn4();
char g2;
char fn3(char a, char b) { return a + b; }
void fn4() { g1 = 4; }
void fn2(char a) { g2 = a; fn4(); }
void fn1() { fn2(1); g1 = fn3(2, 3); }
void main() { fn1(); }
