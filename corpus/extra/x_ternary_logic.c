char p, q, r;
void main() {
  p = (q > r) ? q : r;
  if (p && q || !r) p = 1;
  if ((p & 1) == 0 && (q | r) != 3) q = ~p; else q = -p;
  r = (p == q) ? 1 : ((p < q) ? 2 : 3);
  p ^= q; p |= 128; p &= 127; p <<= 1; p >>= 2; p -= r;
}
