// only ">> 8" extracts the high byte of a reference with an offset
const char tab[4] = {1, 2, 3, 4};
const char hi = tab - 1 >> 8;
const char bad = tab - 1 >> 4;
char r;
void main() { r = hi + bad; }
