// nested header
#define EXTRA 5
char from_sub;
