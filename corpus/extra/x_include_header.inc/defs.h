#ifndef DEFS_H
#define DEFS_H
#define BASE 10
char from_header;
void helper_decl() { from_header = BASE; }
#endif
