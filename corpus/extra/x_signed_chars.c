char a, b; signed char c; unsigned char d;
void main() { a = -1; if (a < 0) b = 1; if (c < d) b = 2; if (a >= b) b = 3; c = a >> 1; }
