char a, b, c, d; short s;
void main() {
  a = (b + c) | (b & c);
  a = b + c + d + 1 + 2 + 3;
  a = (b << 1) + (c >> 1);
  s = (a << 8) | b; s = s + (c << 8);
  if (((a & 1) && (b | 2)) || ((c ^ 3) && !(d & 4))) a = 0;
  a = b ? (c ? 1 : 2) : (d ? 3 : 4);
}
