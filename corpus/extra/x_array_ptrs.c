const char row0[] = {1, 2, 3}; const char row1[] = {4, 5, 6}; const char row2[] = {7, 8, 9};
const char *rows[] = {row0, row1, row2};
const aligned(256) char big[] = {0, 1, 2, 3, 4, 5, 6, 7};
char *cur; char v;
void main() { cur = rows[X]; v = cur[Y]; v = big[X]; }
