#ifndef GUARD
#define GUARD
#define FROM_DIRECTIVES 3
#ifdef NEVER
#error not reached
#else
char from_else;
#endif
#endif
