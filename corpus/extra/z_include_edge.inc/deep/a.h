#include "deep/b.h"
char deep_a;
