char deep_b;
