// pointer to pointer declarations are too complex for the compiler
char **pp;
char r;
void main() { r = 0; }
