const char *hx = "\x41\x42";
const char *mix = "a\x7zz\x1b[2J";
const char *oct = "\101";
const char *unk = "\q\w";
const char *utf = "naïve €";
const char esc[] = "tab\tnl\nbs\\q\"end";
char c1; char *p;
void main() { c1 = '\x'; c1 = 'x'; p = "path\xyz"; p = hx; p = mix; p = oct; p = unk; p = utf; c1 = esc[X]; asm("; \x41", 0); }
