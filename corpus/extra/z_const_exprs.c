const char q = 100 / 5;
char arr[64 / 4];
const char t[] = {7 / 2, 9 - 3, 2 * 3, 1 + 1, 1 << 3, 256 >> 4, 6 & 3, 6 | 1, 6 ^ 2, -4 / 2, ~0 & 15, !0, 3 > 2, 3 >= 3, 2 < 3, 2 <= 2, 2 == 2, 2 != 3, 1 && 0, 1 || 0, (8 / 4) ? 5 : 6, sizeof(arr) / 2};
const aligned(32/2) char al[8 / 2] = {1, 2, 3, 4};
char v;
void main() { v = q; v = t[X]; v = al[Y]; v = 12 / 4; asm("NOP", 4 / 2); csleep(2); }
