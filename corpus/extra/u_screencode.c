// screencode strings: every range of the character conversion, plus escapes
screencode const char *msg1 = "HELLO world 0123 @[]_`{}~";
screencode const char *msg2 = "\n\t\a\b\f\v\r";
screencode const char *msg3 = "ÀÁ éèñ ÿ € ™";
screencode bank1 const char *msg4 = "BANKED Text";
const char *plain = "\a\b\t\f\v\q\'\"\\\0end";
const char alarm = '\a';
const char back = '\b';
const char tabc = '\t';
const char feed = '\f';
const char vert = '\v';
const char unk = '\q';
const char quote = '\'';
char r;
void main()
{
    r = msg1[X] + msg2[Y];
    r += msg3[2] + plain[3];
    r += alarm + back + tabc + feed + vert + unk + quote;
}
