// switch statements inside every kind of loop, leaving and restarting the loop from a case
char x, y, z;
void main()
{
  do {
    switch (x) {
      case 1: if (y) continue; break;
      case 2: y++; break;
      default: if (z) break;
    }
    x++;
  } while (x != 10);
  while (y) {
    switch (y) {
      case 3: continue;
      case 4: if (x) continue;
      default: y--;
    }
  }
  for (z = 0; z != 5; z++) {
    switch (z) {
      case 0: if (x == 2) continue; y = 1; break;
      case 1: switch (x) { case 7: if (y) continue; } break;
    }
    if (z == 3) break;
  }
  do { switch (z) { case 1: do { if (x) continue; x--; } while (x); } } while (z);
}
