// local arrays of pointers and shorts, array-typed parameters, stack frame sizes
char buf[8];
char out;
void take(char a[4], char *b[2], short c[2], char *d, short e, char f[])
{
    out = a[1] + f[2];
    d = b[1];
    e = c[1];
    out += d[Y];
}
void one(void)
{
    char *lone[1];
    short sone[1];
    char cone[1];
    char *p;
    short s;
    lone[0] = buf;
    sone[0] = 3;
    cone[0] = 4;
    p = lone[0];
    s = sone[0];
    out = p[Y] + cone[0];
}
void main()
{
    char *lp[2];
    short ls[3];
    char lc[4];
    char *ptr;
    short sh;
    lp[0] = buf;
    lp[1] = buf;
    ls[2] = 1000;
    lc[3] = 1;
    ptr = lp[1];
    sh = ls[2];
    take(lc, lp, ls, ptr, sh, buf);
    one();
}
