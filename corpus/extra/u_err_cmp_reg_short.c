// registers cannot be compared with 16-bit variables
short s;
char zp;
void main() { if (X == 2) zp = 1; if (X == s) zp = 2; }
