// the same suffixes inside array initialisers
const char tab[4] = {1, 2, 3, 4};
char buf[8];
const char mixed[] = {tab & 255, tab >> 8, tab + 1 & 255, tab + 1 >> 8, tab - 1 & 255, tab - 1 >> 8, &buf, tab, tab + 2, tab - 2, &buf + 1, 7};
const short smixed[] = {1000, tab, tab + 1, tab >> 8, -5};
const char *ptrs[] = {tab, buf + 2, tab - 1, buf, "text", 0x1000, "more"};
const char *sized[2] = {tab, buf};
const char *nested[] = {sized, tab};
char r;
char *q;
void main()
{
    r = mixed[X] + mixed[3];
    q = ptrs[X];
    r = q[Y];
    q = sized[1];
    q = nested[Y];
    r += smixed[X];
}
