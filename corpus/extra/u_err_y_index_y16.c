// an index taken from an array of shorts with Y addressing cannot be loaded into Y
char tab[8];
short sidx[4];
char zp;
void main() { zp = tab[sidx[X]]; zp = tab[sidx[Y]]; }
