// compound assignments inside the initial value of LOCAL variables
char g, h;
void main()
{
    char a = g += 2;
    char b = g -= 1;
    char e = g <<= 1;
    char f = g >>= 1;
    char i = g &= 15;
    char j = g |= 1;
    char k = g ^= 3;
    h = a + b + e + f + i + j + k;
}
