#define COUNT 5
#define TWICE(x) ((x) + (x))
#define ADD(a, b) ((a) + (b))
#define NAME "macro string"
#ifdef COUNT
char m0;
#else
char never;
#endif
#if COUNT == 5
char m1;
#elif COUNT == 6
char m2;
#else
char m3;
#endif
char *ms;
void main() { m0 = TWICE(COUNT); m1 = ADD(m0, TWICE(2)); ms = NAME; }
