// same in a constant expression
const char n = sizeof(signed short);
char cv;
void main() { cv = n; }
