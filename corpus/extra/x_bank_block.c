char s0;
bank1 {
  const char data1[] = {1, 1, 2, 3, 5, 8};
  void in1() { s0 = data1[X]; }
}
bank3 {
  const char data3[] = "bank three";
  void in3() { s0 = data3[Y]; }
}
void main() { in1(); in3(); }
