char st;
bank1 char f1(char a) { return a + 1; }
bank2 void f2() { st = 2; }
inline void f3() { st++; }
bank1 const char d1[] = "one";
bank2 const char *d2[] = {"two", "deux"};
void main() { st = f1(1); f2(); st = d1[X]; }
