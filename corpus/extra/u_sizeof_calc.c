// sizeof inside constant expressions (global initialisers, array sizes)
short sv;
char cv;
char *pv;
const char ctab[5] = {1, 2, 3, 4, 5};
char rtab[6];
short sarr[4];
char *parr[3];
const char s_short = sizeof(sv);
const char s_char = sizeof(cv);
const char s_ptr = sizeof(pv);
const char s_ctab = sizeof(ctab);
const char s_rtab = sizeof(rtab);
const char s_sarr = sizeof(sarr);
const char s_parr = sizeof(parr);
const char s_t1 = sizeof(char);
const char s_t2 = sizeof(short);
const char s_t3 = sizeof(int);
const char s_t4 = sizeof(short int);
const char s_t5 = sizeof(char *);
const char s_t6 = sizeof(int *);
char buf2[sizeof(sarr) + sizeof(parr)];
const char sum[] = {sizeof(sv) + 1, sizeof(char *) * 2, sizeof(ctab) - 1};
void main()
{
    cv = s_short + s_char + s_ptr + s_ctab + s_rtab + s_sarr + s_parr;
    cv += s_t1 + s_t2 + s_t3 + s_t4 + s_t5 + s_t6 + sum[1];
    buf2[0] = cv;
}
