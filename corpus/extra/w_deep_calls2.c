char g;
void k() { g = 99; }
void h() { k(); g++; }
void c18() { h(); g = 18; }
void c17() { c18(); g = 17; }
void c16() { c17(); g = 16; }
void c15() { c16(); g = 15; }
void c14() { c15(); g = 14; }
void c13() { c14(); g = 13; }
void c12() { c13(); g = 12; }
void c11() { c12(); g = 11; }
void c10() { c11(); g = 10; }
void c9() { c10(); g = 9; }
void c8() { c9(); g = 8; }
void c7() { c8(); g = 7; }
void c6() { c7(); g = 6; }
void c5() { c6(); g = 5; }
void c4() { c5(); g = 4; }
void c3() { c4(); g = 3; }
void c2() { c3(); g = 2; }
void c1() { c2(); g = 1; }
void interrupt irqa() { c1(); }
void interrupt irqb() { h(); }
void wide() { c5(); c9(); c13(); h(); k(); }
void main() { g = 0; wide(); }
