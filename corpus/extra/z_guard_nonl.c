#include "guard.h"
#include "tailcomment.h"
char after;
void main() { after = counter + other; }
