// an interrupt routine cannot be called like a function
char ticks;
void interrupt nmi() { ticks++; }
void main() { ticks = 0; nmi(); }
