// comparisons of 16-bit variables with constants, with zero and with each other
short s, t;
unsigned short us, ut;
short sarr[4];
char zp;
void main()
{
    if (s == 1000) zp = 1;
    if (s != 1000) zp = 2;
    if (s < 1000) zp = 3;
    if (s <= 1000) zp = 4;
    if (s > 1000) zp = 5;
    if (s >= 1000) zp = 6;
    if (s == t) zp = 7;
    if (s != t) zp = 8;
    if (s < t) zp = 9;
    if (s <= t) zp = 10;
    if (s > t) zp = 11;
    if (s >= t) zp = 12;
    if (us < ut) zp = 13;
    if (us <= 500) zp = 14;
    if (us > ut) zp = 15;
    if (us >= 500) zp = 16;
    if (s == 0) zp = 17;
    if (s != 0) zp = 18;
    if (s < 0) zp = 19;
    if (s <= 0) zp = 20;
    if (s > 0) zp = 21;
    if (s >= 0) zp = 22;
    if (s) zp = 23;
    if (!s) zp = 24;
    if (sarr[X] == 300) zp = 25;
    if (sarr[X] > t) zp = 26;
    if (sarr[Y] <= 300) zp = 27;
    if (sarr[2] < s) zp = 28;
    if (sarr[X]) zp = 29;
    while (s > 10) s--;
    do { t++; } while (t <= 2000);
    for (us = 0; us < 600; us++) zp++;
    zp = (s > t) ? 1 : 2;
    if (s > 10 && t < 20 || us == 3) zp = 30;
}
