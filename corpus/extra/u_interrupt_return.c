// return statements inside interrupt routines
char ticks, flag;
void interrupt nmi()
{
    ticks++;
    if (ticks == 60) {
        ticks = 0;
        return;
    }
    flag = 1;
    return;
}
void interrupt irq()
{
    return;
}
void interrupt brk() { flag = 0; }
void main()
{
    flag = 0;
    while (!flag) ;
}
