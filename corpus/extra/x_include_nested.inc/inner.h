#define INNER 2
char deep;
