#define OUTER 1
#include "inner.h"
char outer_var;
