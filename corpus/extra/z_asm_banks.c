char shared;
#include "top.asm"
bank1 {
#include "b1.asm"
void f1() { shared = 1; asm("JSR r1", 3); }
}
bank2 {
#include "b2.inc"
void f2() { shared = 2; }
}
#include "hinted.asm"
void main() { f1(); f2(); asm("JSR rtop", 3); }
