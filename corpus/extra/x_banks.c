char shared;
bank1 void far1() { shared = 1; }
bank2 void far2() { shared = 2; }
bank1 const char table1[] = {1, 2, 3};
bank2 const char table2[] = {4, 5, 6};
void near() { shared = 0; }
void main() { near(); far1(); far2(); }
