char k; char r;
char classify(char c) {
  switch (c) {
    case 0: return 1;
    case 1:
    case 2: return 2;
    case 'a': r = 'b'; break;
    case 0x10: r = 0x20;
    case 010: r = 011; break;
    default: r = 255;
  }
  return r;
}
void main() { for (k = 0; k != 20; k++) { r = classify(k); switch (r) { case 1: X = 1; break; default: X = 0; } } }
