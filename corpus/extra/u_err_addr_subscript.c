// address-of does not accept a subscript
char tab[4];
char c;
char *p;
void main() { p = &c; p = &c[1]; }
