const char t4[4] = {1, 2, 3, 4}; const char t2[1 + 1] = {5, 6}; const short w2[2] = {1000, 2000}; char buf16[16]; short sb[8];
const char *names3[3] = {"a", "bb", "ccc"}; const char str6[6] = "hello";
char *np;
void main() { X = t4[Y]; X = t2[1]; buf16[15] = sizeof(buf16); sb[X] = w2[1]; X = str6[0]; np = names3[2]; X = np[Y]; }
