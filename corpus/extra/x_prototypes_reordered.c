void zeta(); void alpha(); void mid();
char v1, v2, v3, v4, v5, v6, v7, v8;
void mid() { v1 = 1; alpha(); }
void alpha() { v2 = 2; }
void zeta() { v3 = 3; mid(); }
short w1, w2, w3;
void main() { zeta(); w1 = v1 + v2; w2 = w1 + v3; w3 = w2; }
