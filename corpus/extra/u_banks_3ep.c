// 3E+ bankswitching: direct calls between banks, RAM in banks
#define __3E_PLUS__ 1
bank1 char ram1[16];
bank3 char ram3[8];
bank3 char single3;
char zp;
bank1 char get1(char i) { return ram1[X = i]; }
bank3 void fill3(char v)
{
    for (X = 0; X != 8; X++) ram3[X] = v;
    for (Y = 0; Y != 8; Y++) ram3[Y] = v;
    single3 = v;
    ram3[2] = single3 + ram3[Y];
    zp = get1(1);
}
void main()
{
    fill3(7);
    zp = get1(2) + ram3[1];
}
