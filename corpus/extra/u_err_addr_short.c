// address-of only works on 8-bit variables
short s;
char c;
char *p;
void main() { p = &c; p = &s; }
