#define A 1
#define B 0
#define C A
#if A
 #if B
  char a_and_b;
 #elif C
  char a_and_c;
 #else
  char a_only;
 #endif
#else
 char not_a;
#endif
#ifndef D
#define D 4
#endif
#ifdef D
char has_d;
#undef D
#endif
#ifdef D
char still_d;
#endif
#if !B
char not_b;
#endif
#if A == 1
char a_is_one;
#endif
void main() { a_and_c = C; has_d = 1; not_b = A; a_is_one = 2; }
