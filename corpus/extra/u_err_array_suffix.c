// the same restriction inside an array initialiser
const char tab[4] = {1, 2, 3, 4};
const char parts[] = {tab + 2 & 255, tab + 2 >> 8, tab + 2 >> 9};
char r;
void main() { r = parts[X]; }
