// text scanning: quote characters handled one per line and several per line
char c, r, n;
const char text[] = "say \"hi\" and 'bye'";
void main()
{
  for (n = 0; n != sizeof(text); n++) {
    c = text[n];
    if (c == '\'') r--;
    if (c == 'a' || c == '\\' || c == '\'') r++;
    if (c == '"' || c == '\"') r++;
  }
}
