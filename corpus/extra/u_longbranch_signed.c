// long bodies guarded by signed and unsigned <, <=, >, >= comparisons: branches must be repaired
signed char sa, sb;
char ua, ub, uc;
char t[8];
#define BODY uc = 1; t[0] = ua + 1; t[1] = ub + 2; t[2] = ua + 3; t[3] = ub + 4; t[4] = ua + 5; t[5] = ub + 6; \
             t[6] = ua + 7; t[7] = ub + 8; t[0] = t[1] + t[2]; t[3] = t[4] + t[5]; t[6] = t[7] + t[0]; \
             t[1] = ua + ub; t[2] = ua - ub; t[3] = ua & ub; t[4] = ua | ub; t[5] = ua ^ ub; \
             t[6] = ub - ua; t[7] = ub + 9; t[0] = ua + 10; t[1] = ub + 11; t[2] = ua + 12; t[3] = ub + 13;
void main()
{
    if (sa < sb) { BODY }
    if (sa > sb) { BODY }
    if (sa <= sb) { BODY }
    if (sa >= sb) { BODY }
    if (ua < ub) { BODY }
    if (ua > ub) { BODY }
    if (ua <= ub) { BODY }
    if (ua >= ub) { BODY }
    do { BODY } while (sa < sb);
    do { BODY } while (sa > sb);
    do { BODY } while (sa <= sb);
    do { BODY } while (sa >= sb);
    do { BODY } while (ua < ub);
    do { BODY } while (ua > ub);
    do { BODY } while (ua <= ub);
    do { BODY } while (ua >= ub);
    while (sa < 10) { BODY }
    while (ua > 10) { BODY }
}
