ramchip char rc0; ramchip char rc1[4];
display char dl0[16];
frequency char fr0[4];
const reversed char rv[] = {1, 2, 3, 4};
const screencode char scr[] = "HELLO";
const nopagecross char npc[] = {7, 8, 9};
const aligned(16) char al[] = {0, 1};
char t;
void main() { rc0 = 1; rc1[X] = rc0; dl0[Y] = 2; t = fr0[X]; t = rv[X]; t = scr[X]; t = npc[Y]; t = al[X]; }
