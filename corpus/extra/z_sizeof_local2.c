char out;
void main() {
  const char tab[] = {1, 2, 3};
  out = tab[0];
  {
    const char tab[] = {1, 2, 3, 4, 5};
    const char n = sizeof(tab);
    char buf[sizeof(tab)];
    buf[0] = n;
    out = buf[0] + tab[1];
  }
}
