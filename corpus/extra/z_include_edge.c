#include "empty.h"
#include "nonl.h"
#include "directives.h"
#include "deep/a.h"
#include "tail.inc"
char after_includes;
void main() { after_includes = FROM_DIRECTIVES + nonl_var + deep_b; }
