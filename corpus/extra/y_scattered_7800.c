const scattered(16,1) char sc[] = {1, 2, 3, 4, 5, 6, 7, 8, 9, 10, 11, 12, 13, 14, 15, 16};
const holeydma char hd[] = {1, 2, 3, 4};
const noholeydma char nh[] = {5, 6};
char t;
void main() { t = sc[Y]; t = hd[X]; t = nh[Y]; for (;;) { t++; } }
