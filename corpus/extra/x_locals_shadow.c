char out;
void work(char n) {
  char i;
  for (i = 0; i != n; i++) {
    char t;
    t = i + 1;
    { char t2; t2 = t + 1; out = t2; }
    { char t2; t2 = t + 2; out = t2; }
  }
}
char other(char a, char b) { char sum; sum = a + b; return sum; }
void main() { char local; local = other(1, 2); work(local); }
