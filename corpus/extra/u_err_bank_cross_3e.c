// 3E scheme: a banked function can only be called from bank 0 or from its own bank
#define __3E__ 1
char *const ROM_SELECT = 0x3f;
char r;
bank2 void target(void) { r = 2; }
bank1 void caller(void) { r = 1; target(); }
void main() { caller(); }
