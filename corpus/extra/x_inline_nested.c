char r;
inline void leaf() { r++; }
inline void middle() { leaf(); leaf(); }
char value() { return r; }
void main() { middle(); middle(); if (value() > 3) { leaf(); } else r = 0; }
