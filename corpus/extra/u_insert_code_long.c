// --insert-code: very long source lines are truncated in the listing; the last line has no newline
char a, zp;
void main()
{
    zp = a + a + a + a + a + a + a + a + a + a + a + a + a + a + a + a + a + a + a + a + a + a + a + a + a + a + a + a + a + a + a + a + a + a + a + a + a + a + a + a + a + a + a + a + a + a + a + a + a + a + a + a + a + a + a + a + a + a + a + a + a + a + a + a + a + a + a + a + a + a;
    zp = 1; a = 2; zp = a; a = zp; zp = 3; a = 4; zp = a; a = zp; zp = 5; a = 6; zp = a; a = zp; zp = 7; a = 8; zp = a; a = zp; zp = 9; a = 10; zp = a; a = zp; zp = 11; a = 12; zp = a; a = zp; zp = 13; a = 14; zp = a; a = zp; zp = 15; a = 16; zp = a; a = zp; zp = 17;
    while (a) a--;
}
void tail() { zp = 0; }