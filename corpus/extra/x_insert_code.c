char a, b;
void helper(char x) { a = x; }
void main() {
  a = 1;
  b = a + 2;
  helper(b);
  for (X = 0; X < 4; X++) { b += X; }
}
