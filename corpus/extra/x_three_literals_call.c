char *s; char *t; char *u;
void g(char *a, char *b, char *c) { s = a; t = b; u = c; }
void main() { g("one", "two", "three"); g("four", "five", "six"); }
