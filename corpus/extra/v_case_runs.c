// runs of case labels sharing one body: short, long and very long; duplicates are not allowed by the compiler
char key, kind;
void main()
{
  switch (key) {
    case 1: case 2: kind = 1; break;
    case 3: case 5: case 7: case 11: case 13: case 17: case 19: case 23: kind = 2; break;
    case 4: case 6: case 8: case 9: case 10: case 12: case 14: case 15: case 16: kind = 3; break;
    case 20: case 21: case 22: case 24: case 25: case 26: case 27: case 28: case 30: case 32:
    case 33: case 34: case 35: case 36: case 38: case 39: case 40: case 42: case 44: case 45:
      kind = 4;
      break;
    default: kind = 0;
  }
  switch (X) {
    case 65: case 69: case 73: case 79: case 85: case 89: case 97: case 101: case 105: case 111: case 117: case 121: Y = 0; break;
    default: Y = 1;
  }
}
