// signed 8-bit values widened to 16 bits: variables, arrays, constant tables, busy accumulator
signed char sc, sd;
signed char stab[4];
const signed char cstab[4] = {-1, 2, -3, 4};
char a;
short s, t;
short sarr[4];
superchip short ss;
void main()
{
    s = sc;
    s = stab[X];
    s = stab[Y];
    s = cstab[2];
    s = stab[1];
    s = sc + 1;
    s = t + sc;
    s = (a & 3) | sc;
    s = (a & 3) | stab[X];
    t = s + stab[Y];
    sarr[X] = sc;
    sarr[X] += 3;
    sarr[X] -= sc;
    sarr[Y] |= 256;
    sarr[2] += 300;
    s += sc;
    s -= stab[X];
    ss = 1;
    ss += 1000;
    s = ss + sc;
    if (s < sc) a = 1;
    s = -sc;
    s = -t;
}
