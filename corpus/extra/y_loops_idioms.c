char flag; char n; char buf[8];
void wait_flag() { while (!flag); }
void spin() { do ; while (flag); }
void fill() { for (X = 0; X != 8; X++) buf[X] = 0; }
void nested() {
  for (n = 0; n < 4; n++) {
    for (X = 0; X < 8; X++) {
      if (buf[X] == 3) continue;
      if (buf[X] == 9) break;
      buf[X]++;
    }
  }
}
void forever() { while (1) { n++; if (n == 200) break; } }
void main() {
  fill(); nested(); wait_flag(); spin(); forever();
  while (1) { n++; }
}
