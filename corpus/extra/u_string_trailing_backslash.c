// a string that ends with an escaped backslash followed by a lone one (accepted by this preprocessor)
const char *odd = "ab\\\";
const char *even = "cd\\";
char r;
void main() { r = odd[X] + even[Y]; }
