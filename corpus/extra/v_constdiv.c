// constant expressions at the limits of 32 bits
#define BIG 2147483647
#define SMALL (-2147483647 - 1)
const char a = BIG / 16777216;
const char b = (SMALL / 16777216) & 255;
const char t[BIG / 536870912] = {1, 2, 3};
char x;
short s;
void main()
{
  x = BIG / 16777216;
  x = SMALL / -16777216;
  s = (BIG - 1) / 65536;
  x = 100 / 7;
  x = -100 / 7;
  switch (x) {
    case 16: x = 0; break;
    case 7: x = 1; break;
  }
}
