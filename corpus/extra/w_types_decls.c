int i0; short int si0; unsigned int ui0; signed short ss0; unsigned char uc0; signed char sc0;
ramplus char rp0; ramplus char rp1[4];
char arr[8]; char v0;
char *const cp = arr;
const char *rp = arr;
const char tab[] = {1, 2, 3, 4};
const char lo = tab & 0xff;
const char hi = tab >> 8;
const char *ptrs[] = {tab, arr + 2, tab + 1};
const char *lows[] = {"ab", "cd"};
char *pv;
void main() {
  i0 = 1; si0 = i0 + 2; ui0 = 65535; ss0 = -2; uc0 = 200; sc0 = -100;
  rp0 = 1; rp1[X] = rp0; v0 = rp1[Y];
  pv = &v0; *pv = 3; v0 = *pv;
  v0 = cp[Y]; v0 = rp[Y]; v0 = lo; v0 = hi; pv = ptrs[X]; pv = lows[1];
  if (i0 == si0) ui0 = ss0; if (uc0 > sc0) v0 = 1;
}
