const char *names[] = {"north", "south", "east", "west", "up", "down"};
const char *greeting = "hello, world";
const char single[] = "abc";
char *p;
void main() { p = names[X]; p = greeting; p = single; }
