char out;
void main() {
  const char tbl[] = {1, 2, 3};
  const char *msg = "local";
  char i = 2;
  short acc16 = 300;
  char *p = tbl;
  out = tbl[X] + i; out = msg[Y]; acc16 += i; out = p[Y];
}
