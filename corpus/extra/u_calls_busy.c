// function calls nested in expressions whose left operand is already in the accumulator
char a, b, zp;
char tab[8];
char val(char v) { return v + 1; }
signed char sval(void) { return -1; }
void touch(void) { b++; }
void set(char v) { b = v; }
inline char twice(char v) { return v << 1; }
inline void bump(void) { b++; }
void main()
{
    zp = (a + 1) + val(b);
    zp = (a + 1) - sval();
    zp = (a + 1) + (touch(), b);
    zp = (a + 1) + (set(3), b);
    zp = (a + 1) + twice(b);
    zp = val(a) + val(b);
    zp = val(val(a));
    zp = val(a) + (b + 1);
    zp = tab[val(a)];
    tab[val(a)] = val(b);
    if (val(a) == b) zp = 1;
    if (val(a) < 3 && sval() < 0) zp = 2;
    bump();
    X = val(a);
    Y = val(b);
    zp = (a + 1) + (X = val(b));
}
