// the high byte of an array of shorts is only extracted by a constant shift of 8
short sarr[4];
char a, zp;
void main() { zp = sarr[X] >> 8; zp = sarr[X] >> a; }
