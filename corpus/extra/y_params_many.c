char r0; short r1; short tmp16;
char add3(char a, char b, char c) { return a + b + c; }
void widen(char a, short b) { tmp16 = b + a; }
void store(char *dst, char idx, char val) { Y = idx; dst[Y] = val; }
char arr[4];
char twice(char a) { return add3(a, a, 0); }
void main() { r0 = add3(1, 2, 3); widen(r0, 1000); r1 = tmp16; store(arr, 2, r0); r0 = twice(add3(1, 1, 1)); r0 = add3(twice(1), twice(2), twice(3)); }
