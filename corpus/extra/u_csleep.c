// every supported cycle sleep value (the odd ones store to a DUMMY zero page location)
char DUMMY;
char zp;
void main()
{
    zp = 1;
    csleep(2);
    csleep(3);
    csleep(4);
    csleep(5);
    csleep(6);
    csleep(7);
    csleep(8);
    csleep(9);
    csleep(10);
    zp = 2;
    csleep(0x2);
    csleep(010);
}
