char arr[8]; char *p; char *q; char v; short w; short sarr[4];
void byref(char *dst, char val) { dst[Y] = val; }
char sum(char *src) { char s; s = 0; for (Y = 0; Y != 8; Y++) s += src[Y]; return s; }
void main() {
  p = arr; q = arr; v = *p; *p = 3; p[Y] = v; v = q[Y];
  byref(arr, 5); v = sum(arr);
  w = p; p = w; p++; p += 2; p = p + 1;
  w = sarr[X]; sarr[X] = w;
  v = p >> 8; v = p & 0xff;
}
