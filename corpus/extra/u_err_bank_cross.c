// classic scheme: a banked function can only be called from bank 0 or from its own bank
char r;
bank2 void target(void) { r = 2; }
bank1 void caller(void) { r = 1; target(); }
void main() { caller(); }
