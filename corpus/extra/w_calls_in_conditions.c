char st; char buf[4];
char is_set(char m) { return st & m; }
char next() { st++; return st; }
char pick(char a, char b) { if (a > b) return a; return b; }
void main() {
  if (is_set(1)) st = 0;
  if (is_set(2) && !is_set(4)) st = 1;
  while (next() < 10) { buf[X] = pick(st, 3); }
  for (X = 0; is_set(8) == 0 && X < 4; X++) st += 2;
  st = pick(pick(1, 2), pick(next(), 4));
  st = is_set(1) ? next() : pick(5, 6);
  do { st--; } while (is_set(128));
  switch (next()) { case 1: st = 9; break; default: st = pick(st, 1); }
}
