// cycle sleep values above 10 are not supported
char zp;
void main()
{
    zp = 1;
    csleep(2);
    csleep(20);
}
