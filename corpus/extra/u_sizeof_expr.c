// sizeof inside expressions: types, pointers, arrays of shorts and of pointers
short sv;
char cv;
char *pv;
const char ctab[5] = {1, 2, 3, 4, 5};
char rtab[6];
short sarr[4];
char *parr[3];
void main()
{
    char *lp;
    short ls;
    short lsa[2];
    char *lpa[2];
    cv = sizeof(char);
    cv = sizeof(short);
    cv = sizeof(int);
    cv = sizeof(short int);
    cv = sizeof(char *);
    cv = sizeof(int *);
    cv = sizeof(sv);
    cv = sizeof(cv);
    cv = sizeof(pv);
    cv = sizeof(ctab);
    cv = sizeof(rtab);
    cv = sizeof(sarr);
    cv = sizeof(parr);
    cv = sizeof(lp) + sizeof(ls) + sizeof(lsa) + sizeof(lpa);
    cv = cv + sizeof(sarr);
    X = sizeof(parr);
    Y = sizeof sarr;
    lp = rtab; ls = 1; lsa[0] = 2; lpa[1] = rtab;
}
