// A small game-like program mixing most features
#define MAX_SPRITES 4
#define SCREEN_H 192
#define CLAMP(v, lo, hi) ((v) < (lo) ? (lo) : ((v) > (hi) ? (hi) : (v)))
#define KERNEL_WAIT() csleep(4)
unsigned char frame; signed char dx, dy; unsigned short score;
char sprite_x[MAX_SPRITES]; char sprite_y[MAX_SPRITES]; char sprite_on[MAX_SPRITES];
const char sine[] = {0, 1, 2, 3, 4, 3, 2, 1};
const char *names[] = {"PLAYER", "ENEMY", "SHOT", "BONUS"};
const aligned(256) char gfx[] = {0x18, 0x3c, 0x7e, 0xff, 0xff, 0x7e, 0x3c, 0x18};
char *msg; char tmp;
void interrupt vblank() { frame++; }
inline void wait_line() { KERNEL_WAIT(); }
char collide(char a, char b) {
  char d;
  d = sprite_x[X] - sprite_x[Y];
  if (d < 8) { if (sprite_y[X] == sprite_y[Y]) return 1; }
  return 0;
}
void move_sprites() {
  for (X = 0; X != MAX_SPRITES; X++) {
    if (!sprite_on[X]) continue;
    sprite_x[X] += dx; sprite_y[X] += dy;
    if (sprite_y[X] >= SCREEN_H) sprite_on[X] = 0;
  }
}
void draw() {
  char line;
  for (line = 0; line != 8; line++) { wait_line(); tmp = gfx[X]; store(tmp); }
}
void add_score(char n) { score += n; if (score > 9999) score = 0; msg = names[3]; }
bank1 void far_logic() { tmp = sine[X]; }
void main() {
  frame = 0; score = 0; dx = 1; dy = -1;
  for (X = 0; X != MAX_SPRITES; X++) { sprite_on[X] = 1; sprite_x[X] = 10; sprite_y[X] = 20; }
  while (1) {
    move_sprites();
    X = 0; Y = 1;
    if (collide(0, 1)) add_score(10);
    tmp = CLAMP(frame, 10, 100);
    draw(); far_logic();
    switch (frame & 3) { case 0: msg = names[0]; break; case 1: msg = "tick"; break; default: msg = "tock"; }
    if (frame == 255) break;
  }
}
