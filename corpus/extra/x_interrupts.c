char counter; char ticks;
void helper() { counter = 0; }
void interrupt nmi_handler() { counter++; }
void interrupt irq_handler() { ticks++; helper(); }
void unused() { ticks = 9; }
void main() { counter = 0; ticks = 0; while (counter < 10) { ticks--; } }
