
            some
            FOO-BAR
            multiline
        