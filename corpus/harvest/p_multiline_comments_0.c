
     #if FOO
     foo text /* Bobby */
     #endif
     bar text