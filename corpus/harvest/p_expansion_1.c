
            some
            FOO_BAR
            multiline
        