void f() { char j; j = Y; }
void main() { char i; i = X; f(); }