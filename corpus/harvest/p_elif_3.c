
            some
            #if FOO
            multiline
            #elif 0
            text
            #else
            with # symbols
            #endif
        