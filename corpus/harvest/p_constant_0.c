
            some
            #if 0
            multiline
            text
            #endif
            with # symbols
        