
            some
            #if FOO
            multiline
            text
            #endif
            with # symbols
        