#define add(a,b) a+b
add(1,2)