#define zobi(x) x
char *s; void main() { s = zobi("hello, world!"); }