const char *s = "hello, "
	"world!";