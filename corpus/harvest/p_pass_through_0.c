
            some
            multiline
            text
            with # symbols
        