
            some
            #if FOO
            multiline
            #else
            text
            #endif
            with # symbols
        