#define zobi(a,b) a+b
void main() { X = zobi(zobi(1,zobi(12,2)),zobi(3,4)); }