
            some
            #if FOO == 1
            multiline
            text
            #endif
            with # symbols
        