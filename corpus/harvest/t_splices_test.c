#define one \
1
char i; void main() { i = one; }