
const char s1[] = {0};
const char s2[] = {0};
const char *ss[] = {s1, s2};

char *ptr;
char v;

void main()
{
    ptr = ss[0];
    v = ptr[Y];
}
            