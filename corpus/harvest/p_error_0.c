#error This is an error
            foo bar