#define ZOBI
     #define FOO FOO_BAR // JR
     #ifdef FOO
     foo text
     #endif
     FOO /*bar text
     Dallas
     */ Ewing