#define foobar
#define foobar