
            some
            #if FOO
            multiline
            #elif 1
            text
            #else
            with # symbols
            #endif
        