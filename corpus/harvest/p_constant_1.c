
            some
            #if 1
            multiline
            text
            #endif
            with # symbols
        