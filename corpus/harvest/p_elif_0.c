
            some
            #if FOO
            multiline
            #elif 1
            text
            #endif
            with # symbols
        