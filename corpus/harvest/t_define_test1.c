#define macro() X
void main() { Y = macro(); }