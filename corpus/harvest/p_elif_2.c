
            some
            #if FOO
            multiline
            #elif 0
            text
            #endif
            with # symbols
        