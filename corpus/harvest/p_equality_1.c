
            some
            #if FOO == 0
            multiline
            text
            #endif
            with # symbols
        