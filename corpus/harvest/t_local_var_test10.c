
void fn1() { char x, y; }; 
void fn2() { char x, y; fn1(); }
void fn3() { char x; }
void main() { fn2(); fn3(); }
            