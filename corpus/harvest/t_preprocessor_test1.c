#define pp(x) foo##x
char pp(0);
void main() { X = pp(0); }