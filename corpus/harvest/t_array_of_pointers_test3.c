
char *s1, *s2;
char *ss[2];

char *ptr;
char v;

void main()
{
    ss[0] = s1;
    ss[1] = s2;
    ptr = ss[1];
    v = ptr[Y];
}
            