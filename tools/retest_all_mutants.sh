#!/bin/sh
# retest_all_mutants.sh: runs every seeded change under /verif/seeded (agents' and own) against the quick
# check of its property in a sandbox and prints one line per mutant: CAUGHT <first key> | MISSED | ERROR.
cd /verif
for d in seeded/*/; do
  id=$(basename $d)
  [ "$id" = "own" ] && continue
  prop=$(python3 -c "import json;print(json.load(open('$d/meta.json'))['property'])")
  pf=/verif/$d/patch.diff; [ -f /verif/$d/patch.rebased.diff ] && pf=/verif/$d/patch.rebased.diff; out=$(tools/try_mutant_sandbox.sh $pf $prop quick 2>&1)
  if echo "$out" | grep -q "^VIOLATION"; then echo "$id $prop CAUGHT $(echo "$out" | grep '^simc: [A-Z]*|' | head -1 | cut -c7-90)";
  elif echo "$out" | grep -q "HARNESS\|build failed\|does not apply"; then echo "$id $prop ERROR $(echo "$out" | grep 'HARNESS\|build failed\|does not apply' | head -1 | cut -c1-120)";
  else echo "$id $prop MISSED"; fi
done
for f in seeded/own/*.diff; do
  id=$(basename $f .diff)
  prop=$(python3 -c "import json;print(json.load(open('/verif/seeded/own/meta.json'))['$id.diff']['property'])")
  out=$(tools/try_mutant_sandbox.sh /verif/$f $prop quick 2>&1)
  if echo "$out" | grep -q "^VIOLATION"; then echo "own/$id $prop CAUGHT $(echo "$out" | grep '^simc: [A-Z]*|' | head -1 | cut -c7-90)";
  elif echo "$out" | grep -q "HARNESS\|build failed\|does not apply"; then echo "own/$id $prop ERROR $(echo "$out" | grep 'HARNESS\|build failed\|does not apply' | head -1 | cut -c1-120)";
  else echo "own/$id $prop MISSED"; fi
done
