#!/bin/sh
# coverage.sh [quick|files <f.c>...]: reach measurement - which lines of /repo/src does the workload execute?
# Builds the simulator with -C instrument-coverage on the nightly toolchain (its llvm-tools are installed) in a
# scratch directory, runs both quick checks (or just the given programs through `simc one`), and lists the
# uncovered line ranges of /repo/src. Scratch: /tmp/cov (removed at the end unless KEEP=1).
set -e
T=/root/.rustup/toolchains/nightly-x86_64-unknown-linux-gnu/lib/rustlib/x86_64-unknown-linux-gnu/bin
S=/tmp/cov
mode="${1:-quick}"; [ $# -gt 0 ] && shift
mkdir -p $S/prof
export LLVM_PROFILE_FILE=$S/prof/%p-%m.profraw
(cd /verif/sim && RUSTFLAGS="--cfg cc6502_verif -C instrument-coverage" cargo +nightly build --release --offline --target-dir $S/target 2>&1 | tail -1)
if [ "$mode" = quick ]; then
  root=$S/verif; rm -rf $root; mkdir -p $root; cp -r /verif/corpus /verif/KNOWN_FINDINGS.txt $root/
  (cd $root && VERIF_ROOT=$root $S/target/release/simc check C16 quick 2>&1 | grep "search done")
  (cd $root && VERIF_ROOT=$root $S/target/release/simc check C05 quick 2>&1 | grep "search done")
else
  for f in "$@"; do
    a=""; [ -f "${f%.c}.args" ] && a=$(tr '\n' ' ' < "${f%.c}.args")
    $S/target/release/simc one "$f" $a 2>&1 | tail -1 | cut -c1-200
  done
fi
unset LLVM_PROFILE_FILE
$T/llvm-profdata merge -sparse $S/prof/*.profraw -o $S/all.profdata
rm -rf $S/prof
$T/llvm-cov export $S/target/release/simc -instr-profile=$S/all.profdata --format=lcov --ignore-filename-regex='(registry|rustc|verif/sim|rustup)' > $S/cov.lcov 2>/dev/null
python3 - <<'PY'
import collections
cur=None; miss=collections.defaultdict(list); tot=collections.Counter()
for l in open('/tmp/cov/cov.lcov'):
    l=l.strip()
    if l.startswith('SF:'): cur=l[3:]
    elif l.startswith('DA:'):
        n,c=l[3:].split(',')[:2]; tot[cur]+=1
        if int(c)==0: miss[cur].append(int(n))
T=M=0
for f in sorted(tot):
    if 'tests/build.rs' in f: continue
    src=open(f).read().split('\n'); ls=miss.get(f,[])
    T+=tot[f]; M+=len(ls)
    print('==== %s: %d of %d lines not executed'%(f,len(ls),tot[f]))
    rs=[];s=p=None
    for n in ls:
        if s is None: s=p=n
        elif n==p+1: p=n
        else: rs.append((s,p)); s=p=n
    if s: rs.append((s,p))
    for a,b in rs: print('  %d-%d: %s'%(a,b,src[a-1].strip()[:110]))
print('TOTAL /repo/src (without tests/build.rs): %d of %d lines executed (%.1f%%)'%(T-M,T,100.0*(T-M)/T))
PY
[ -n "$KEEP" ] || rm -rf $S
