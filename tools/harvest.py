#!/usr/bin/env python3
"""Harvest the programs compiled by the repository's own tests into /verif/corpus/harvest.

Run by hand when the pinned tree changes (the result is committed); checks do not run it.
For every `#[test] fn NAME()` in /repo/src/lib.rs: optimisation level from `sargs(N)`, source
from the first `let input = <rust string literal>;`.  For /repo/src/cpp.rs tests: every string
literal passed to process_str / assigned to `input` is taken as a raw preprocessor text.
"""
import re, os, sys, json

def decode_rust_str(src, i):
    """src[i] is the opening quote of a normal string literal. returns (value, index after closing quote)"""
    assert src[i] == '"'
    i += 1
    out = []
    while True:
        c = src[i]
        if c == '"':
            return ''.join(out), i + 1
        if c == '\\':
            n = src[i+1]
            if n == 'n': out.append('\n'); i += 2
            elif n == 't': out.append('\t'); i += 2
            elif n == 'r': out.append('\r'); i += 2
            elif n == '0': out.append('\0'); i += 2
            elif n == '\\': out.append('\\'); i += 2
            elif n == '"': out.append('"'); i += 2
            elif n == "'": out.append("'"); i += 2
            elif n == 'x': out.append(chr(int(src[i+2:i+4], 16))); i += 4
            elif n == 'u':
                j = src.index('}', i)
                out.append(chr(int(src[i+3:j], 16))); i = j + 1
            elif n == '\n':
                i += 2
                while src[i] in ' \t\n\r': i += 1
            else:
                raise ValueError('escape \\' + n)
        else:
            out.append(c); i += 1

def decode_raw_str(src, i):
    m = re.match(r'r(#*)"', src[i:])
    hashes = m.group(1)
    start = i + len(m.group(0))
    end = src.index('"' + hashes, start)
    return src[start:end], end + 1 + len(hashes)

def read_literal(src, i):
    while src[i] in ' \t\n': i += 1
    if src[i] == '"': return decode_rust_str(src, i)
    if src[i] == 'r': return decode_raw_str(src, i)
    raise ValueError('not a literal at %d: %r' % (i, src[i:i+20]))

def main():
    out = '/verif/corpus/harvest'
    os.makedirs(out, exist_ok=True)
    for f in os.listdir(out): os.remove(os.path.join(out, f))
    n = 0
    lib = open('/repo/src/lib.rs').read()
    tests = [(m.start(), m.group(1)) for m in re.finditer(r'#\[test\]\s*fn\s+(\w+)\s*\(\)', lib)]
    for k, (pos, name) in enumerate(tests):
        end = tests[k+1][0] if k + 1 < len(tests) else len(lib)
        body = lib[pos:end]
        m = re.search(r'sargs\((\d)\)', body)
        lvl = m.group(1) if m else '1'
        m = re.search(r'let\s+input\s*=\s*', body)
        if not m:
            print('skip (no input)', name); continue
        try:
            val, _ = read_literal(body, m.end())
        except Exception as e:
            print('skip', name, e); continue
        open(os.path.join(out, 't_%s.c' % name), 'w').write(val)
        open(os.path.join(out, 't_%s.args' % name), 'w').write('-O%s\n' % lvl)
        n += 1
    cpp = open('/repo/src/cpp.rs').read()
    cpp = cpp[cpp.index('mod tests'):]
    tests = [(m.start(), m.group(1)) for m in re.finditer(r'#\[test\]\s*fn\s+(\w+)\s*\(\)', cpp)]
    for k, (pos, name) in enumerate(tests):
        end = tests[k+1][0] if k + 1 < len(tests) else len(cpp)
        body = cpp[pos:end]
        lits = []
        for m in re.finditer(r'(process_str\(\s*|let\s+input\s*=\s*)', body):
            try:
                val, _ = read_literal(body, m.end())
                lits.append(val)
            except Exception:
                pass
        for j, val in enumerate(lits):
            open(os.path.join(out, 'p_%s_%d.c' % (name, j)), 'w').write(val)
            n += 1
    print('harvested', n)

main()
