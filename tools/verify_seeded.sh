#!/bin/sh
# verify_seeded.sh <worktree> <demo test name>: confirms (1) existing tests pass with the change,
# (2) the demonstration fails with the change, (3) passes without it.
# (uses patch files, not `git stash`: the stash is shared between all worktrees of a repository)
wt="$1"; demo="$2"
cd "$wt" || exit 2
mkdir -p target
git diff > target/.verify.patch
[ -s target/.verify.patch ] || { echo "no uncommitted change in $wt"; exit 2; }
echo "--- $wt: existing tests with the change"
cargo test --offline --lib 2>&1 | grep "test result"
cargo test --offline --doc 2>&1 | grep "test result"
echo "--- demo with the change (expected: FAILED)"
timeout 300 cargo test --offline --test "$demo" 2>&1 | grep "test result"
git apply -R target/.verify.patch || exit 2
echo "--- demo without the change (expected: ok)"
timeout 300 cargo test --offline --test "$demo" 2>&1 | grep "test result"
git apply target/.verify.patch
git status --short | grep -v "^??"
