#!/bin/sh
# verify_seeded.sh <worktree> <demo test name>: confirms (1) existing tests pass with the change,
# (2) the demonstration fails with the change, (3) passes without it.
wt="$1"; demo="$2"
cd "$wt" || exit 2
echo "--- $wt: existing tests with the change"
cargo test --offline --lib 2>&1 | grep "test result"
cargo test --offline --doc 2>&1 | grep "test result"
echo "--- demo with the change (expected: FAILED)"
timeout 300 cargo test --offline --test "$demo" 2>&1 | grep "test result"
git stash -q
echo "--- demo without the change (expected: ok)"
timeout 300 cargo test --offline --test "$demo" 2>&1 | grep "test result"
git stash pop -q
git status --short | grep -v "^??" 
