#!/usr/bin/env python3
"""mkreplay.py <prop> <class> <key> <out.json> <source-file> [--inc path=file ...] [-- args...]
Hand-craft a solo-world replay file (canonical delivery, zero hash key)."""
import sys, json
prop, cls, key, out, srcf = sys.argv[1:6]
rest = sys.argv[6:]
incs = []; args = []
while rest:
    a = rest.pop(0)
    if a == '--inc':
        p, f = rest.pop(0).split('=', 1)
        incs.append({"path": p, "kind": {"File": open(f).read()}})
    elif a == '--':
        args = rest; break
canon = {"chunks": "Whole", "eintr": "Never", "error_at": None}
def text_or_hex(b):
    try:
        return b.decode('utf-8')
    except UnicodeDecodeError:
        return {"hex": b.hex()}
job = {"label": "hand-made: " + srcf, "source": text_or_hex(open(srcf, 'rb').read()), "includes": incs, "args": args or ["-O1"],
       "reader": canon, "writer": canon, "fuel": 0, "faults": []}
if incs and "-I" not in job["args"]:
    job["args"] += ["-I", "$INC"]
world = {"prop": prop, "seed": 0, "threads": [{"hash_key": "0" * 32, "jobs": [0]}], "jobs": [job], "sched": "Sequential", "note": "hand-made"}
json.dump({"property": prop, "violation_class": cls, "violation_key": key, "detail": "", "cargo_features": "default", "worlds": [world]}, open(out, "w"), indent=1)
