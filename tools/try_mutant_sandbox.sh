#!/bin/sh
# try_mutant_sandbox.sh <patch.diff> <prop> <tier> [more "prop tier" pairs...]   (a pair "replay <file.json>" replays a file instead)
# Like try_mutant.sh but never touches /repo's working tree: the patch is applied to a scratch git
# worktree of /repo, and a scratch copy of the simulator crate is built against that worktree.
# (Development aid only - the registered checks always build against /repo itself.)
patch="$1"; shift
id=$$
R=/tmp/mrepo-$id; S=/tmp/msim-$id; V=/tmp/mverif-$id
git -C /repo worktree add -q "$R" HEAD || exit 2
trap 'mkdir -p /verif/replays/sandbox; cp "$V"/replays/*.json /verif/replays/sandbox/ 2>/dev/null; git -C /repo worktree remove --force "$R" 2>/dev/null; git -C /repo worktree prune; rm -rf "$S" "$V"; echo "[sandbox removed]"' EXIT
( cd "$R" && git apply "$patch" ) || { echo "patch does not apply"; exit 2; }
mkdir -p "$S" "$V"
cp -r /verif/sim/src /verif/sim/Cargo.toml /verif/sim/Cargo.lock /verif/sim/.cargo "$S"/
sed -i "s|path = \"/repo\"|path = \"$R\"|" "$S/Cargo.toml"
sed -i "s|#\[path = \"/repo/src/tests/build.rs\"\]|#[path = \"$R/src/tests/build.rs\"]|" "$S/src/main.rs"
ln -s /verif/corpus "$V/corpus"; cp /verif/KNOWN_FINDINGS.txt "$V/"
( cd "$S" && CARGO_NET_OFFLINE=true cargo build --release --offline >build.log 2>&1 ) || { echo "build failed"; tail -20 "$S/build.log"; exit 2; }
while [ $# -ge 2 ]; do
  echo "=== $patch (sandbox): check $1 $2"
  start=$(date +%s)
  if [ "$1" = replay ]; then
    VERIF_ROOT="$V" VERIF_REPO="$R" "$S/target/release/simc" replay "$2" 2>&1 | cut -c1-400 | tail -4
  else
    VERIF_ROOT="$V" VERIF_REPO="$R" "$S/target/release/simc" check "$1" "$2" 2>&1 | grep -v "^KNOWN-FINDING" | cut -c1-400 | tail -12
  fi
  echo "=== after $(( $(date +%s) - start )) s"
  shift 2
done
