#!/bin/sh
# process_mutant.sh <id> <prop>: collect a sub-agent's seeded change from /tmp/wt-<id>, verify it, remove the
# worktree, and run the property's quick check against it in a sandbox.
id="$1"; prop="$2"
mkdir -p /verif/seeded/$id
cd /tmp/wt-$id || exit 2
git diff > /verif/seeded/$id/patch.diff
cp tests/demo_$id.rs /verif/seeded/$id/ 2>/dev/null
echo "--- verify $id"
/verif/tools/verify_seeded.sh /tmp/wt-$id demo_$id 2>&1 | grep -v "^---" | tr '\n' ' '; echo
git -C /repo worktree remove --force /tmp/wt-$id; git -C /repo worktree prune
echo "--- sandbox $id $prop quick"
/verif/tools/try_mutant_sandbox.sh /verif/seeded/$id/patch.diff $prop quick 2>&1 | grep -v "self-test\|^simc: property\|^simc: evidence" | cut -c1-320
