#!/bin/sh
# try_mutant.sh <patch.diff> <prop> <tier> [more "prop tier" pairs...]
# Applies a seeded change to /repo, runs the named checks, and always restores /repo afterwards.
patch="$1"; shift
cd /repo || exit 2
if [ -n "$(git status --porcelain --untracked-files=no)" ]; then echo "repo not clean"; exit 2; fi
git apply "$patch" || { echo "patch does not apply"; exit 2; }
trap 'git -C /repo checkout -- . ; echo "[repo restored]"' EXIT
cd /verif
while [ $# -ge 2 ]; do
  echo "=== $patch: check $1 $2"
  start=$(date +%s)
  ./check "$1" "$2" 2>&1 | grep -v "^KNOWN-FINDING" | cut -c1-400 | tail -12
  echo "=== exit ${PIPESTATUS:-?} after $(( $(date +%s) - start )) s"
  shift 2
done
