//! Oracles: C05 (observation equality across conditions) and C16 (totality, located errors).

use crate::job::{JobResult, Obs, Outcome};
use crate::world::{IncKind, JobSpec};
use std::collections::BTreeMap;

#[derive(Clone, Debug)]
pub struct Violation {
    pub class: String,
    /// identity used for the known-findings file
    pub key: String,
    pub detail: String,
}

/// text of the source line a panic location points to, read from the tree under test
pub struct SrcLines {
    cache: BTreeMap<String, Vec<String>>,
}
impl SrcLines {
    pub fn new() -> SrcLines {
        SrcLines { cache: BTreeMap::new() }
    }
    pub fn line(&mut self, file: &str, line: u32) -> String {
        let v = self.cache.entry(file.to_string()).or_insert_with(|| {
            std::fs::read_to_string(file).map(|s| s.lines().map(|l| l.trim().to_string()).collect()).unwrap_or_default()
        });
        let idx = (line as usize).wrapping_sub(1);
        let text = v.get(idx).cloned().unwrap_or_default();
        // a line such as `_ => unreachable!(),` occurs many times in one file: qualify it with the two
        // non-empty lines above it, so that the key still names one site and survives line shifts
        let generic = text.len() < 28 && (text.contains("unreachable!") || text.contains("unwrap()") || text.contains("panic!") || text == "}");
        if generic && idx < v.len() {
            let mut ctx: Vec<&str> = Vec::new();
            let mut k = idx;
            while k > 0 && ctx.len() < 2 {
                k -= 1;
                if !v[k].is_empty() {
                    ctx.push(&v[k]);
                }
            }
            ctx.reverse();
            return format!("{} // {}", ctx.join(" // "), text);
        }
        text
    }
}

/// Normalised panic site: `src/compile.rs|<trimmed text of the line>` for repository files,
/// `dep:<crate dir>/<path>:<line>|<message head>` for anything else.
pub fn panic_key(src: &mut SrcLines, file: &str, line: u32, msg: &str) -> String {
    // the tree under test is /repo; a sandboxed run (tools/try_mutant_sandbox.sh) points VERIF_REPO elsewhere
    let repo = std::env::var("VERIF_REPO").unwrap_or_else(|_| "/repo".to_string());
    let repo_rel = file.strip_prefix(&format!("{}/", repo)).or_else(|| if file.starts_with("src/") { Some(file) } else { None });
    if let Some(rel) = repo_rel {
        let text = src.line(&format!("{}/{}", repo, rel), line);
        return format!("PANIC|{}|{}", rel, text);
    }
    // ~/.cargo/registry/src/<index>/<crate>-<ver>/src/x.rs  or  /rustc/<hash>/library/...
    let short = if let Some(i) = file.find("/registry/src/") {
        file[i + 14..].splitn(2, '/').nth(1).unwrap_or(file).to_string()
    } else if let Some(i) = file.find("/library/") {
        file[i + 1..].to_string()
    } else {
        file.to_string()
    };
    // positions and counts inside messages vary with the input: digits are not part of the site
    let mut head = String::new();
    let mut last_hash = false;
    for c in msg.chars().take(80) {
        if c.is_ascii_digit() {
            if !last_hash {
                head.push('#');
            }
            last_hash = true;
        } else {
            head.push(c);
            last_hash = false;
        }
    }
    format!("PANIC|dep:{}:{}|{}", short, line, head)
}

/// number of lines of a delivered file as `str::lines` counts them (a final newline does not open
/// another line); an empty file has one (empty) line for the purpose of locating an error
fn line_count(b: &[u8]) -> u32 {
    let nl = b.iter().filter(|c| **c == b'\n').count() as u32;
    let n = if b.is_empty() || b.ends_with(b"\n") { nl } else { nl + 1 };
    n.max(1)
}

/// C16: the job must end with Ok or a structured, located error.
pub fn check_c16(job: &JobSpec, r: &JobResult, src: &mut SrcLines) -> Option<Violation> {
    if let Some(b) = &r.bad_map {
        let what = if b.contains("not delivered") { "file" } else { "line" };
        return Some(Violation {
            class: "BADLOC".into(),
            key: format!("BADLOC|map|{}", what),
            detail: format!("the line map handed to the builder points outside the delivered input: {}", b),
        });
    }
    match &r.obs.outcome {
        Outcome::Ok | Outcome::ArgsRejected(_) => None,
        Outcome::Panic { file, .. } if file == crate::job::INJECTED => None,
        Outcome::Panic { file, line, msg } => {
            let key = panic_key(src, file, *line, msg);
            Some(Violation { class: "PANIC".into(), key, detail: format!("panicked at {}:{}: {}", file, line, msg) })
        }
        Outcome::Hang { site, memory } => Some(if *memory {
            Violation {
                class: "HANG".into(),
                key: format!("MEMGROW|{}", site),
                detail: format!("live heap of the job grew beyond its cap (64 MiB + 4 KiB per input byte) after {} ticks, last site {}", r.ticks, site),
            }
        } else {
            Violation {
                class: "HANG".into(),
                key: format!("HANG|{}", site),
                detail: format!("step budget exhausted after {} ticks, last site {}", r.ticks, site),
            }
        }),
        Outcome::Err { variant, text, filename, line, included_in } => match *variant {
            "Syntax" | "Compiler" => {
                // location must lie inside a delivered file
                let delivered: Option<Vec<u8>> = if filename == "string" {
                    Some(job.source.0[..r.delivered.min(job.source.0.len())].to_vec())
                } else {
                    job.includes.iter().find_map(|f| match &f.kind {
                        IncKind::File(b) if f.path == *filename || f.path.ends_with(&format!("/{}", filename)) => Some(b.0.clone()),
                        _ => None,
                    })
                };
                match delivered {
                    None => Some(Violation {
                        class: "BADLOC".into(),
                        key: format!("BADLOC|file|{}", variant),
                        detail: format!("error names file {:?} which was never delivered: {}", filename, text),
                    }),
                    Some(d) => {
                        let max = line_count(&d);
                        if *line >= 1 && *line <= max {
                            // the "included in" part of the location must lie inside the input as well
                            if let Some((ifile, iline)) = included_in {
                                let idel: Option<Vec<u8>> = if ifile == "string" {
                                    Some(job.source.0.clone())
                                } else {
                                    job.includes.iter().find_map(|f| match &f.kind {
                                        IncKind::File(b) if f.path == *ifile || f.path.ends_with(&format!("/{}", ifile)) => Some(b.0.clone()),
                                        _ => None,
                                    })
                                };
                                let ok = idel.map(|d| *iline >= 1 && *iline <= line_count(&d)).unwrap_or(false);
                                if !ok {
                                    return Some(Violation {
                                        class: "BADLOC".into(),
                                        key: "BADLOC|included_in".into(),
                                        detail: format!("error says it was included from line {} of {:?}, which is outside the delivered input: {}", iline, ifile, text.chars().take(160).collect::<String>()),
                                    });
                                }
                            }
                            None
                        } else {
                            let msg_head: String = text.chars().take(120).collect();
                            Some(Violation {
                                class: "BADLOC".into(),
                                key: format!("BADLOC|line|{}", if *line == 0 { "zero" } else { "beyond" }),
                                detail: format!("error line {} outside 1..={} of {:?}: {}", line, max, filename, msg_head),
                            })
                        }
                    }
                }
            }
            "Io" => {
                let io_fault = r.rlog.error_fired
                    || r.wlog.error_fired
                    || !r.wlog.eintr_calls.is_empty()
                    // text that is not UTF-8 is damaged *data*, not an I/O failure: it must come back as a located
                    // error (it did not before fix dd4cd1d); a directory in place of an include file, or an include
                    // fault that changes what open() meets, is an I/O failure
                    || job.includes.iter().any(|f| matches!(&f.kind, IncKind::Dir))
                    || job.faults.iter().any(|f| f.starts_with("include:") && !f.starts_with("include:non_utf8") && !f.starts_with("include:corrupt") && !f.starts_with("include:truncated"));
                if io_fault {
                    None
                } else {
                    Some(Violation {
                        class: "BADIO".into(),
                        key: "BADIO|io error without an injected I/O fault".into(),
                        detail: text.clone(),
                    })
                }
            }
            _ => None,
        },
    }
}

/// C05: compare an observation with the reference observation of the same compilation request.
/// `hard_read` / `hard_write`: an injected hard error fired on this job (relaxed rule).
/// Debug/Trace records of the `log` facade, compared with a reference taken at the same level.
pub fn check_debug_log(reference: &(u64, u32, String), got: &(u64, u32, String)) -> Option<Violation> {
    if reference.0 == got.0 && reference.1 == got.1 {
        return None;
    }
    let (a, b): (Vec<&str>, Vec<&str>) = (reference.2.lines().collect(), got.2.lines().collect());
    let i = a.iter().zip(&b).position(|(x, y)| x != y);
    let show = |v: &Vec<&str>, i: usize| v.get(i).map(|s| s.chars().take(200).collect::<String>()).unwrap_or_else(|| "<end>".into());
    let detail = match i {
        Some(i) => format!("Debug/Trace log record {} differs: {:?} <> {:?}", i, show(&a, i), show(&b, i)),
        None => format!("Debug/Trace log text differs beyond the kept head or in length: {} records <> {} records", reference.1, got.1),
    };
    Some(Violation { class: "DIVERGE".into(), key: "DIVERGE|debug_log".into(), detail })
}

pub fn check_c05(reference: &Obs, r: &JobResult) -> Option<Violation> {
    if r.rlog.error_fired {
        return None; // nothing is demanded beyond termination
    }
    if r.wlog.error_fired {
        if reference.out.starts_with(&r.obs.out) {
            return None;
        }
        return Some(Violation {
            class: "DIVERGE".into(),
            key: "DIVERGE|prefix".into(),
            detail: format!(
                "bytes accepted before the injected write error are not a prefix of the reference output: {}",
                reference.diff(&r.obs)
            ),
        });
    }
    if *reference == r.obs {
        return None;
    }
    let d = reference.diff(&r.obs);
    let what = d.split(|c| c == ':' || c == ' ').next().unwrap_or("obs").to_string();
    Some(Violation { class: "DIVERGE".into(), key: format!("DIVERGE|{}", what), detail: d })
}
