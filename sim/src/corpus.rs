//! Workload programs: the committed corpus under <root>/corpus plus the seeded "declaration soup".

use crate::rng::Rng;
use crate::world::{Bytes, IncFile, IncKind};
use std::path::{Path, PathBuf};

#[derive(Clone, Debug)]
pub struct Program {
    pub name: String,
    pub source: Vec<u8>,
    pub args: Vec<String>,
    pub includes: Vec<IncFile>,
}

pub fn verif_root() -> PathBuf {
    if let Ok(r) = std::env::var("VERIF_ROOT") {
        return PathBuf::from(r);
    }
    // <root>/sim/target*/release/simc
    if let Ok(exe) = std::env::current_exe() {
        if let Some(root) = exe.ancestors().nth(4) {
            if root.join("corpus").is_dir() {
                return root.to_path_buf();
            }
        }
    }
    PathBuf::from("/verif")
}

fn collect_includes(dir: &Path, rel: &str, out: &mut Vec<IncFile>) {
    let mut entries: Vec<_> = match std::fs::read_dir(dir) {
        Ok(e) => e.filter_map(|x| x.ok()).collect(),
        Err(_) => return,
    };
    entries.sort_by_key(|e| e.file_name());
    for e in entries {
        let name = e.file_name().to_string_lossy().to_string();
        let relp = if rel.is_empty() { name.clone() } else { format!("{}/{}", rel, name) };
        let p = e.path();
        if p.is_dir() {
            collect_includes(&p, &relp, out);
        } else if let Ok(b) = std::fs::read(&p) {
            out.push(IncFile { path: relp, kind: IncKind::File(Bytes(b)) });
        }
    }
}

/// Loads every `<name>.c` (+ optional `<name>.args`, `<name>.inc/`) below `<root>/corpus`, sorted by name.
pub fn load_corpus(root: &Path) -> Result<Vec<Program>, String> {
    let mut progs = Vec::new();
    for sub in ["harvest", "extra"] {
        let dir = root.join("corpus").join(sub);
        let mut entries: Vec<_> = std::fs::read_dir(&dir)
            .map_err(|e| format!("cannot read {}: {}", dir.display(), e))?
            .filter_map(|x| x.ok())
            .collect();
        entries.sort_by_key(|e| e.file_name());
        for e in entries {
            let p = e.path();
            if p.extension().map(|x| x == "c").unwrap_or(false) {
                let stem = p.file_stem().unwrap().to_string_lossy().to_string();
                let source = std::fs::read(&p).map_err(|e| e.to_string())?;
                let mut args = Vec::new();
                if let Ok(a) = std::fs::read_to_string(p.with_extension("args")) {
                    for l in a.lines() {
                        if !l.trim().is_empty() {
                            args.push(l.trim().to_string());
                        }
                    }
                }
                let mut includes = Vec::new();
                let incdir = p.with_extension("inc");
                if incdir.is_dir() {
                    collect_includes(&incdir, "", &mut includes);
                    args.push("-I".to_string());
                    args.push("$INC".to_string());
                }
                progs.push(Program { name: format!("{}/{}", sub, stem), source, args, includes });
            }
        }
    }
    if progs.len() < 50 {
        return Err(format!("corpus too small: {} programs", progs.len()));
    }
    Ok(progs)
}

// ---------------------------------------------------------------- declaration soup

const NAMES: [&str; 8] = ["alpha", "beta", "gamma", "delta", "eps", "zeta", "eta", "theta"];
const WORDS: [&str; 8] = ["hello", "world", "atari", "OK", "KO", "a", "x=1;", "tab\\there"];
const PARAMS: [&str; 3] = ["x", "v", "n"];

/// A program assembled from the ingredients C05 names: many globals, several string literals per
/// expression / initialiser / table (with repeats), prototypes defined later in another order,
/// interrupt handlers, inline and banked functions, shadowed locals, object-like and function-like
/// macros that are used. Workload only: the oracle never looks at what the program means.
/// Identifiers, macro names, parameter names and words come from deliberately tiny pools so that the
/// programs of one history share names while differing in what the names mean, and top-level items
/// are emitted in random order (tables before and after the code that mentions the same strings).
pub fn soup(seed: u64) -> Program {
    let mut r = Rng::new(seed ^ 0x50_55_50);
    let mut args: Vec<String> = vec![format!("-O{}", r.below(4))];
    if r.chance(1, 4) {
        args.push("--insert-code".into());
    }
    if r.chance(1, 4) {
        args.push("-W".into());
        args.push("all".into());
    }
    if r.chance(1, 6) {
        args.push("--fsigned_char".into());
    }
    let word = |r: &mut Rng| WORDS[r.usize_below(WORDS.len())];
    let name = |r: &mut Rng| NAMES[r.usize_below(NAMES.len())];

    // macros: (NAME, arity); tiny pool => the same name gets another shape in another program
    let mut head = String::new();
    let mut macros: Vec<(String, usize)> = Vec::new();
    for _ in 0..r.below(4) {
        let n = name(&mut r).to_uppercase();
        if macros.iter().any(|m| m.0 == n) {
            continue;
        }
        match r.below(5) {
            0 => {
                head.push_str(&format!("#define {} {}\n", n, r.below(200)));
                macros.push((n, 0));
            }
            1 => {
                let p = PARAMS[r.usize_below(3)];
                head.push_str(&format!("#define {}({}) (({}) + {})\n", n, p, p, r.below(9)));
                macros.push((n, 1));
            }
            2 => {
                let p = PARAMS[r.usize_below(3)];
                let q = PARAMS[(r.usize_below(2) + 1 + PARAMS.iter().position(|x| *x == p).unwrap()) % 3];
                head.push_str(&format!("#define {}({}, {}) (({}) | ({}))\n", n, p, q, p, q));
                macros.push((n, 2));
            }
            3 => {
                head.push_str(&format!("#define {} \"{}\"\n", n, word(&mut r)));
                macros.push((n, 9));
            }
            _ => {
                args.push("-D".into());
                args.push(format!("{}={}", n, r.below(50)));
                macros.push((n, 0));
            }
        }
    }
    // a macro defined in terms of an earlier one: the same definition text means something else
    // in a program where the earlier macro has another value
    if let Some(base) = macros.iter().find(|m| m.1 == 0).map(|m| m.0.clone()) {
        if r.chance(1, 2) {
            let n = ["TOTAL", "SUM"][r.usize_below(2)];
            head.push_str(&format!("#define {} ({} + {})\n", n, base, 1 + r.below(2)));
            macros.push((n.to_string(), 0));
        }
    }
    let use_macro = |r: &mut Rng, macros: &Vec<(String, usize)>| -> Option<String> {
        let nums: Vec<&(String, usize)> = macros.iter().filter(|m| m.1 != 9).collect();
        if nums.is_empty() {
            return None;
        }
        let m = nums[r.usize_below(nums.len())];
        Some(match m.1 {
            0 => m.0.clone(),
            1 => format!("{}({})", m.0, r.below(20)),
            _ => format!("{}({}, {})", m.0, r.below(20), r.below(20)),
        })
    };

    // top-level items in random order
    let mut items: Vec<String> = Vec::new();
    let nglob = 1 + r.below(8);
    for i in 0..nglob {
        let n = format!("{}{}", name(&mut r), i % 3);
        let it = match r.below(7) {
            0 => format!("unsigned char g_{};\n", n),
            1 => format!("short g_{};\n", n),
            2 => format!("char g_{}[{}];\n", n, 2 + r.below(6)),
            3 => format!("const char g_{}[] = {{{}, {}, {}}};\n", n, r.below(256), r.below(256), r.below(256)),
            4 => format!("const char *g_{} = \"{}\";\n", n, word(&mut r)),
            5 => {
                let k = 2 + r.below(3);
                let v: Vec<String> = (0..k).map(|_| format!("\"{}\"", word(&mut r))).collect();
                format!("const char *g_{}[] = {{{}}};\n", n, v.join(", "))
            }
            _ => format!("char *g_{};\n", n),
        };
        if !items.iter().any(|x| x.contains(&format!(" g_{}", n)) || x.contains(&format!("*g_{}", n))) {
            items.push(it);
        }
    }
    let nfun = 1 + r.below(5);
    let mut funs: Vec<(String, u64, bool)> = Vec::new();
    for i in 0..nfun {
        funs.push((format!("f_{}{}", name(&mut r), i), r.below(3), r.chance(1, 2)));
    }
    let sig = |f: &(String, u64, bool)| -> String {
        let ps: Vec<String> = (0..f.1).map(|k| format!("char p{}", k)).collect();
        format!("{} {}({})", if f.2 { "char" } else { "void" }, f.0, ps.join(", "))
    };
    let mut protos = String::new();
    for f in &funs {
        if r.chance(1, 2) {
            protos.push_str(&format!("{};\n", sig(f)));
        }
    }
    if r.chance(1, 3) {
        items.push("void interrupt irq_handler() { acc++; }\n".into());
    }
    for f in &funs {
        let mut b = String::new();
        let prefix = if r.chance(1, 6) && f.1 == 0 { "inline " } else { "" };
        b.push_str(&format!("{}{} {{\n", prefix, sig(f)));
        let nloc = r.below(3);
        for k in 0..nloc {
            b.push_str(&format!("  char l{};\n", k));
        }
        for k in 0..nloc {
            b.push_str(&format!("  l{} = {};\n", k, r.below(100)));
        }
        if r.chance(1, 2) {
            b.push_str(&format!("  {{ char l0; l0 = {}; acc = l0; }}\n", r.below(50)));
        }
        for _ in 0..r.below(3) {
            b.push_str(&format!("  sink = \"{}\";\n", word(&mut r)));
        }
        if let Some(m) = use_macro(&mut r, &macros) {
            if r.chance(1, 2) {
                b.push_str(&format!("  acc = {};\n", m));
            }
        }
        if f.2 {
            b.push_str(&format!("  return {};\n", r.below(200)));
        }
        b.push_str("}\n");
        items.push(b);
    }
    for i in (1..items.len()).rev() {
        let j = r.usize_below(i + 1);
        items.swap(i, j);
    }
    let mut s = head;
    s.push_str("char *sink; unsigned char acc;\n");
    s.push_str("void two(char *a, char *b) { sink = a; sink = b; }\n");
    s.push_str(&protos);
    // functions must be defined before use unless prototyped: keep un-prototyped ones callable only later
    let mut late: Vec<String> = Vec::new();
    for it in items {
        if r.chance(1, 5) && !it.contains('(') {
            late.push(it);
        } else {
            s.push_str(&it);
        }
    }
    s.push_str("void main() {\n");
    for _ in 0..1 + r.below(6) {
        match r.below(6) {
            0 => s.push_str(&format!("  two(\"{}\", \"{}\");\n", word(&mut r), word(&mut r))),
            1 => {
                let f = &funs[r.usize_below(funs.len())];
                let ps: Vec<String> = (0..f.1).map(|_| format!("{}", r.below(200))).collect();
                if f.2 {
                    s.push_str(&format!("  acc = {}({});\n", f.0, ps.join(", ")));
                } else {
                    s.push_str(&format!("  {}({});\n", f.0, ps.join(", ")));
                }
            }
            2 => match use_macro(&mut r, &macros) {
                Some(m) => s.push_str(&format!("  acc = acc + {};\n", m)),
                None => s.push_str(&format!("  acc = acc + {};\n", r.below(255))),
            },
            3 => s.push_str(&format!("  if (acc < {}) acc++; else acc = 0;\n", r.below(255))),
            4 => s.push_str(&format!("  sink = \"{}\"; sink = \"{}\";\n", word(&mut r), word(&mut r))),
            _ => s.push_str(&format!("  for (X = 0; X != {}; X++) acc += X;\n", 1 + r.below(20))),
        }
    }
    if let Some(m) = macros.iter().find(|m| m.1 == 9) {
        s.push_str(&format!("  sink = {};\n", m.0));
    }
    s.push_str("}\n");
    for it in late {
        s.push_str(&it);
    }
    Program { name: format!("soup/{:016x}", seed), source: s.into_bytes(), args, includes: Vec::new() }
}
