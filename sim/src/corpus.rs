//! Workload programs: the committed corpus under <root>/corpus plus the seeded "declaration soup".

use crate::rng::Rng;
use crate::world::{Bytes, IncFile, IncKind};
use std::path::{Path, PathBuf};

#[derive(Clone, Debug)]
pub struct Program {
    pub name: String,
    pub source: Vec<u8>,
    pub args: Vec<String>,
    pub includes: Vec<IncFile>,
}

pub fn verif_root() -> PathBuf {
    if let Ok(r) = std::env::var("VERIF_ROOT") {
        return PathBuf::from(r);
    }
    // <root>/sim/target*/release/simc
    if let Ok(exe) = std::env::current_exe() {
        if let Some(root) = exe.ancestors().nth(4) {
            if root.join("corpus").is_dir() {
                return root.to_path_buf();
            }
        }
    }
    PathBuf::from("/verif")
}

fn collect_includes(dir: &Path, rel: &str, out: &mut Vec<IncFile>) {
    let mut entries: Vec<_> = match std::fs::read_dir(dir) {
        Ok(e) => e.filter_map(|x| x.ok()).collect(),
        Err(_) => return,
    };
    entries.sort_by_key(|e| e.file_name());
    for e in entries {
        let name = e.file_name().to_string_lossy().to_string();
        let relp = if rel.is_empty() { name.clone() } else { format!("{}/{}", rel, name) };
        let p = e.path();
        if p.is_dir() {
            collect_includes(&p, &relp, out);
        } else if let Ok(b) = std::fs::read(&p) {
            out.push(IncFile { path: relp, kind: IncKind::File(Bytes(b)) });
        }
    }
}

/// Loads every `<name>.c` (+ optional `<name>.args`, `<name>.inc/`) below `<root>/corpus`, sorted by name.
pub fn load_corpus(root: &Path) -> Result<Vec<Program>, String> {
    let mut progs = Vec::new();
    for sub in ["harvest", "extra"] {
        let dir = root.join("corpus").join(sub);
        let mut entries: Vec<_> = std::fs::read_dir(&dir)
            .map_err(|e| format!("cannot read {}: {}", dir.display(), e))?
            .filter_map(|x| x.ok())
            .collect();
        entries.sort_by_key(|e| e.file_name());
        for e in entries {
            let p = e.path();
            if p.extension().map(|x| x == "c").unwrap_or(false) {
                let stem = p.file_stem().unwrap().to_string_lossy().to_string();
                let source = std::fs::read(&p).map_err(|e| e.to_string())?;
                let mut args = Vec::new();
                if let Ok(a) = std::fs::read_to_string(p.with_extension("args")) {
                    for l in a.lines() {
                        if !l.trim().is_empty() {
                            args.push(l.trim().to_string());
                        }
                    }
                }
                let mut includes = Vec::new();
                let incdir = p.with_extension("inc");
                if incdir.is_dir() {
                    collect_includes(&incdir, "", &mut includes);
                    args.push("-I".to_string());
                    args.push("$INC".to_string());
                }
                progs.push(Program { name: format!("{}/{}", sub, stem), source, args, includes });
            }
        }
    }
    if progs.len() < 50 {
        return Err(format!("corpus too small: {} programs", progs.len()));
    }
    Ok(progs)
}

// ---------------------------------------------------------------- declaration soup

const NAMES: [&str; 12] = ["alpha", "beta", "gamma", "delta", "eps", "zeta", "eta", "theta", "iota", "kappa", "lam", "mu"];
const WORDS: [&str; 10] = ["hello", "world", "atari", "cc6502", "abc", "a", "zz top", "x=1;", "%d\\n", "tab\\there"];

/// A program assembled from the ingredients C05 names: many globals, several string literals per
/// expression / initialiser / table, prototypes defined later in another order, interrupt handlers,
/// inline and banked functions, shadowed locals, macros. Workload only: the oracle never looks at
/// what the program means. Deliberately draws identifiers from a small pool so that different
/// programs of one history share names.
pub fn soup(seed: u64) -> Program {
    let mut r = Rng::new(seed ^ 0x50_55_50);
    let mut s = String::new();
    let mut args: Vec<String> = vec![format!("-O{}", r.below(4))];
    if r.chance(1, 4) {
        args.push("--insert-code".into());
    }
    if r.chance(1, 4) {
        args.push("-W".into());
        args.push("all".into());
    }
    if r.chance(1, 6) {
        args.push("--fsigned_char".into());
    }
    let nmac = r.below(4);
    for i in 0..nmac {
        let n = NAMES[r.usize_below(NAMES.len())].to_uppercase();
        match r.below(3) {
            0 => s.push_str(&format!("#define {}{} {}\n", n, i, r.below(200))),
            1 => s.push_str(&format!("#define {}{}(x) ((x) + {})\n", n, i, r.below(9))),
            _ => {
                args.push("-D".into());
                args.push(format!("{}{}={}", n, i, r.below(50)));
            }
        }
    }
    // globals
    let nglob = 1 + r.below(10);
    let mut globals = Vec::new();
    for i in 0..nglob {
        let n = format!("{}{}", NAMES[r.usize_below(NAMES.len())], i);
        match r.below(7) {
            0 => s.push_str(&format!("unsigned char {};\n", n)),
            1 => s.push_str(&format!("short {};\n", n)),
            2 => s.push_str(&format!("char {}[{}];\n", n, 2 + r.below(6))),
            3 => s.push_str(&format!("const char {}[] = {{{}, {}, {}}};\n", n, r.below(256), r.below(256), r.below(256))),
            4 => s.push_str(&format!("const char *{} = \"{}\";\n", n, WORDS[r.usize_below(WORDS.len())])),
            5 => {
                let k = 2 + r.below(3);
                let items: Vec<String> = (0..k).map(|_| format!("\"{}\"", WORDS[r.usize_below(WORDS.len())])).collect();
                s.push_str(&format!("const char *{}[] = {{{}}};\n", n, items.join(", ")));
            }
            _ => s.push_str(&format!("char *{};\n", n)),
        }
        globals.push(n);
    }
    s.push_str("char *sink; unsigned char acc;\n");
    // functions: prototypes first (random subset), definitions in shuffled order
    let nfun = 1 + r.below(6);
    let mut funs: Vec<(String, u64, bool)> = Vec::new(); // name, nparams, returns
    for i in 0..nfun {
        funs.push((format!("f_{}{}", NAMES[r.usize_below(NAMES.len())], i), r.below(3), r.chance(1, 2)));
    }
    let sig = |f: &(String, u64, bool)| -> String {
        let ps: Vec<String> = (0..f.1).map(|k| format!("char p{}", k)).collect();
        format!("{} {}({})", if f.2 { "char" } else { "void" }, f.0, ps.join(", "))
    };
    for f in &funs {
        if r.chance(1, 2) {
            s.push_str(&format!("{};\n", sig(f)));
        }
    }
    let mut order: Vec<usize> = (0..funs.len()).collect();
    for i in (1..order.len()).rev() {
        let j = r.usize_below(i + 1);
        order.swap(i, j);
    }
    if r.chance(1, 3) {
        s.push_str("void interrupt irq_handler() { acc++; }\n");
    }
    for &i in &order {
        let f = &funs[i];
        let prefix = if r.chance(1, 6) && f.1 == 0 { "inline " } else { "" };
        s.push_str(&format!("{}{} {{\n", prefix, sig(f)));
        let nloc = r.below(3);
        for k in 0..nloc {
            s.push_str(&format!("  char l{};\n", k));
        }
        for k in 0..nloc {
            s.push_str(&format!("  l{} = {};\n", k, r.below(100)));
        }
        if r.chance(1, 2) {
            s.push_str(&format!("  {{ char l0; l0 = {}; acc = l0; }}\n", r.below(50)));
        }
        if r.chance(1, 2) {
            s.push_str(&format!("  sink = \"{}\";\n", WORDS[r.usize_below(WORDS.len())]));
        }
        if f.2 {
            s.push_str(&format!("  return {};\n", r.below(200)));
        }
        s.push_str("}\n");
    }
    // a two-pointer consumer so that several literals can meet in one expression
    s.push_str("void two(char *a, char *b) { sink = a; sink = b; }\n");
    s.push_str("void main() {\n");
    let nst = 1 + r.below(6);
    for _ in 0..nst {
        match r.below(5) {
            0 => s.push_str(&format!(
                "  two(\"{}\", \"{}\");\n",
                WORDS[r.usize_below(WORDS.len())],
                WORDS[r.usize_below(WORDS.len())]
            )),
            1 => {
                let f = &funs[r.usize_below(funs.len())];
                let ps: Vec<String> = (0..f.1).map(|_| format!("{}", r.below(200))).collect();
                if f.2 {
                    s.push_str(&format!("  acc = {}({});\n", f.0, ps.join(", ")));
                } else {
                    s.push_str(&format!("  {}({});\n", f.0, ps.join(", ")));
                }
            }
            2 => s.push_str(&format!("  acc = acc + {};\n", r.below(255))),
            3 => s.push_str(&format!("  if (acc < {}) acc++; else acc = 0;\n", r.below(255))),
            _ => s.push_str(&format!("  for (X = 0; X != {}; X++) acc += X;\n", 1 + r.below(20))),
        }
    }
    s.push_str("}\n");
    let _ = globals;
    Program { name: format!("soup/{:016x}", seed), source: s.into_bytes(), args, includes: Vec::new() }
}
