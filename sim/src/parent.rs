//! Parent process: drives a check (self-test, search, triage, minimisation, evidence) or a replay.

use crate::corpus::{load_corpus, verif_root, Program};
use crate::faults;
use crate::gen;
use crate::pool::{run_pool, run_pool_opts, run_worlds_fresh, Msg};
use crate::rng::{mix, Rng};
use crate::sched::SchedSpec;
use crate::simio::StreamSpec;
use crate::worker::{Item, RMsg, VMsg};
use crate::world::{Bytes, JobSpec, ReplayFile, World};
use serde_json::json;
use std::collections::{BTreeMap, BTreeSet};
use std::time::Instant;

pub fn features() -> &'static str {
    if cfg!(feature = "atari2600") {
        "atari2600"
    } else if cfg!(feature = "atari7800") {
        "atari7800"
    } else {
        "default"
    }
}

fn n_workers() -> usize {
    std::env::var("VERIF_JOBS")
        .ok()
        .and_then(|s| s.parse().ok())
        .unwrap_or_else(|| std::thread::available_parallelism().map(|n| n.get()).unwrap_or(4))
        .max(1)
}

fn verif_seed() -> u64 {
    std::env::var("VERIF_SEED").ok().and_then(|s| s.trim().parse::<i64>().ok()).map(|x| x as u64).unwrap_or(1)
}

// ---------------------------------------------------------------- known findings

#[derive(Clone, Debug)]
struct Known {
    prop: String,
    key: String,
    what: String,
}

/// `known: property=C16 key=<key> :: <what fails>` — one per line; `fixed:` lines are documentation only.
fn load_known(root: &std::path::Path) -> Vec<Known> {
    let mut v = Vec::new();
    if let Ok(s) = std::fs::read_to_string(root.join("KNOWN_FINDINGS.txt")) {
        for l in s.lines() {
            let l = l.trim();
            if let Some(rest) = l.strip_prefix("known:") {
                let rest = rest.trim();
                let Some(rest) = rest.strip_prefix("property=") else { continue };
                let Some((prop, rest)) = rest.split_once(' ') else { continue };
                let Some(rest) = rest.trim().strip_prefix("key=") else { continue };
                let (key, what) = rest.split_once(" :: ").unwrap_or((rest, ""));
                v.push(Known { prop: prop.to_string(), key: key.trim().to_string(), what: what.trim().to_string() });
            }
        }
    }
    v
}

// ---------------------------------------------------------------- aggregation

#[derive(Default)]
struct Agg {
    stats: BTreeMap<String, u64>,
    digests: BTreeMap<String, u64>,
    traces: BTreeSet<u64>,
    keys: BTreeMap<u64, (BTreeSet<u64>, bool)>,
    refs: BTreeMap<u64, BTreeSet<u64>>,
    delivered: BTreeSet<u64>,
    samples: Vec<String>,
    violations: Vec<VMsg>,
    suppressed: BTreeMap<String, u64>,
    deaths: Vec<(String, String, String, Item)>,
    broken: Vec<String>,
    /// (process, request key, hash of the reference observation computed in that process)
    proc_refs: Vec<(usize, u64, u64)>,
    /// world tags each worker process ran, in order
    proc_tags: BTreeMap<usize, Vec<String>>,
    /// added to the pool's process ids (several pools run during one check)
    proc_offset: usize,
    /// (process, request key, world tag, job index) of references whose request is not a corpus program
    ref_origin: Vec<(usize, u64, String, usize)>,
    /// (worker process, origin tag, job index, log level, reference tag, expected pristine hash)
    dbg_refs: Vec<(usize, String, usize, u8, String, u64)>,
    /// world tag of a violation -> process that reported it
    violation_proc: BTreeMap<String, usize>,
    /// key-set hash -> (map size, distinct iteration orders seen)
    map_orders: BTreeMap<u64, (u8, BTreeSet<u64>)>,
}

impl Agg {
    fn absorb_r(&mut self, procid: usize, r: RMsg) {
        for (k, h) in &r.refs {
            self.proc_refs.push((procid + self.proc_offset, *k, *h));
        }
        for (set, order, n) in &r.map_orders {
            let e = self.map_orders.entry(*set).or_insert((*n, BTreeSet::new()));
            if e.1.len() < 720 {
                e.1.insert(*order);
            }
        }
        for (k, t, j) in &r.ref_origin {
            self.ref_origin.push((procid + self.proc_offset, *k, t.clone(), *j));
        }
        for (t, j, l, rt, h) in &r.dbg_refs {
            self.dbg_refs.push((procid + self.proc_offset, t.clone(), *j, *l, rt.clone(), *h));
        }
        for (k, v) in r.stats {
            *self.stats.entry(k).or_insert(0) += v;
        }
        for (t, d) in r.digests {
            if t == "trace" {
                self.traces.insert(d);
            } else {
                self.digests.insert(t, d);
            }
        }
        for (k, c, nt) in r.keys {
            let e = self.keys.entry(k).or_insert((BTreeSet::new(), false));
            if e.0.len() < 128 {
                e.0.insert(c);
            }
            e.1 |= nt;
        }
        for (k, h) in r.refs {
            self.refs.entry(k).or_default().insert(h);
        }
        for d in r.delivered {
            self.delivered.insert(d);
        }
        for s in r.samples {
            if self.samples.len() < 12 {
                self.samples.push(s);
            }
        }
        for (k, n) in r.suppressed {
            *self.suppressed.entry(k).or_insert(0) += n;
        }
    }
    fn run(&mut self, n: usize, items: Vec<Item>) {
        self.run_opts(n, items, false)
    }
    fn run_opts(&mut self, n: usize, items: Vec<Item>, fresh: bool) {
        let rx = run_pool_opts(n, items, fresh);
        for m in rx {
            match m {
                Msg::R(p, r) => self.absorb_r(p, r),
                Msg::Tags(p, t) => self.proc_tags.entry(p + self.proc_offset).or_default().extend(t),
                Msg::V(p, v) => {
                    self.violation_proc.insert(v.tag.clone(), p + self.proc_offset);
                    self.violations.push(v)
                }
                Msg::D(t, d) => {
                    self.digests.insert(t, d);
                }
                Msg::Died { tag, status, diag, item } => self.deaths.push((tag, status, diag, item)),
                Msg::Broken(e) => self.broken.push(e),
            }
        }
    }
}

// ---------------------------------------------------------------- tier configuration

struct Tier {
    name: &'static str,
    selftest: u64,
    c05_keys: u64,
    c05_worlds: u64,
    c16_sample: usize, // positions per (program, kind); usize::MAX = exhaustive
    c16_worlds: u64,
}

fn tier(name: &str) -> Option<Tier> {
    match name {
        "quick" => Some(Tier { name: "quick", selftest: 256, c05_keys: 12, c05_worlds: 28_000, c16_sample: 48, c16_worlds: 50_000 }),
        "thorough" => Some(Tier { name: "thorough", selftest: 4096, c05_keys: 64, c05_worlds: 600_000, c16_sample: usize::MAX, c16_worlds: 600_000 }),
        _ => None,
    }
}

fn batches(prop: &str, base: u64, from: u64, to: u64, size: u64, digests: bool) -> Vec<Item> {
    let mut v = Vec::new();
    let mut a = from;
    while a < to {
        let b = (a + size).min(to);
        v.push(if prop == "C05" { Item::C05Seeds { base, from: a, to: b, digests } } else { Item::C16Seeds { base, from: a, to: b, digests } });
        a = b;
    }
    v
}

// ---------------------------------------------------------------- check

pub fn check(prop: &str, tier_name: &str) -> i32 {
    let t0 = Instant::now();
    let root = verif_root();
    let Some(t) = tier(tier_name) else {
        eprintln!("unknown tier {}", tier_name);
        return 2;
    };
    if prop != "C05" && prop != "C16" {
        eprintln!("property {} is not claimed by this machinery (see MANIFEST.json not_applicable)", prop);
        return 2;
    }
    let corpus = match load_corpus(&root) {
        Ok(c) => c,
        Err(e) => {
            eprintln!("HARNESS: {}", e);
            return 2;
        }
    };
    let seed = verif_seed();
    let base = mix(seed, if prop == "C05" { 0xC05 } else { 0xC16 });
    let nw = n_workers();
    println!("simc: property={} tier={} VERIF_SEED={} workers={} corpus={} programs features={}", prop, t.name, seed, nw, corpus.len(), features());

    // ---- phase 0a: the interposed seams (hash keys, wall clock, pid) must really be in force
    match std::env::current_exe().ok().and_then(|e| std::process::Command::new(e).arg("seamtest").output().ok()) {
        Some(o) if o.status.success() => {}
        other => {
            eprintln!("HARNESS: seam self-test failed: std no longer takes hash keys / clock / pid from the simulator ({:?})", other.map(|o| String::from_utf8_lossy(&o.stdout).to_string()));
            return 2;
        }
    }
    // ---- phase 0: determinism self-test (same seeds, different processes, different worker counts)
    // Both runs use the same batches of 16 seeds, each batch in a brand-new worker process, so that
    // process histories are identical and every event (ticks, traces, I/O sizes, observations) must match.
    let mut a1 = Agg::default();
    a1.run_opts(1.max(nw / 4), batches(prop, base, 0, t.selftest, 16, true), true);
    let mut a2 = Agg { proc_offset: 500_000, ..Default::default() };
    a2.run_opts(nw, batches(prop, base, 0, t.selftest, 16, true), true);
    if !a1.broken.is_empty() || !a2.broken.is_empty() {
        eprintln!("HARNESS: {:?} {:?}", a1.broken, a2.broken);
        return 2;
    }
    let mut nondet = Vec::new();
    for (tag, d) in &a1.digests {
        if let Some(d2) = a2.digests.get(tag) {
            if d2 != d {
                nondet.push(tag.clone());
            }
        }
    }
    // worlds without a digest must be exactly those that killed their worker, in both runs
    let dead = |a: &Agg| -> BTreeSet<String> { a.deaths.iter().filter(|d| d.1 != "exit 3").map(|d| d.0.clone()).collect() };
    let hung = |a: &Agg| -> BTreeSet<String> { a.deaths.iter().filter(|d| d.1 == "exit 3").map(|d| d.0.clone()).collect() };
    if dead(&a1) != dead(&a2) {
        nondet.push(format!("worker deaths differ: {:?} vs {:?}", dead(&a1), dead(&a2)));
    }
    let expect = |a: &Agg| t.selftest as usize - dead(a).len() - hung(a).len();
    let selftest_ok = nondet.is_empty() && a1.digests.len() == expect(&a1) && a2.digests.len() == expect(&a2);
    println!("simc: self-test: {} seeds run twice ({} and {} workers), {} digest mismatches", a1.digests.len(), 1.max(nw / 4), nw, nondet.len());
    let mut selftest_pending = false;
    if !selftest_ok {
        // For C05 an uncontrolled difference between two executions of one world is itself a
        // divergence of the code under test if the observations differ; the replays decide.
        println!("simc: self-test mismatch at {:?}", &nondet[..nondet.len().min(5)]);
        if prop == "C05" {
            let i: u64 = nondet[0].split(':').nth(1).and_then(|x| x.parse().ok()).unwrap_or(0);
            let (w, _) = gen::c05_world(mix(base, i), &corpus);
            if let Some(code) = xproc_violation(&root, prop, &[w], "same world observed differently in two processes (self-test)") {
                return code;
            }
            // not a per-process effect: hidden state carried across worlds is decided by the
            // process-history comparison after the search
            selftest_pending = true;
        } else {
            eprintln!("HARNESS: simulator nondeterministic (event digests differ between two runs of the same seed)");
            return 2;
        }
    }

    // ---- phase 1: the search proper
    let mut agg = Agg::default();
    let mut items: Vec<Item> = Vec::new();
    let mut enumerated: u64 = 0;
    let mut exhaustive_kinds: Vec<String> = Vec::new();
    if prop == "C05" {
        for pi in 0..corpus.len() {
            items.push(Item::C05Keys { base, prog: pi, k_from: 0, k_to: t.c05_keys });
            items.push(Item::Delivery { prop: "C05".into(), prog: pi });
        }
        items.extend(batches(prop, base, t.selftest, t.selftest + t.c05_worlds, 100, false));
    } else {
        let mut r = Rng::new(mix(base, 0xE));
        for (pi, p) in corpus.iter().enumerate() {
            items.push(Item::Delivery { prop: "C16".into(), prog: pi });
            enumerated += gen::DELIVERY_VARIANTS as u64;
            items.push(Item::C16Enum { prog: pi, kind: "options".into(), idx: (0..gen::OPTION_VECTORS).collect() });
            enumerated += gen::OPTION_VECTORS as u64;
            items.push(Item::C16Enum { prog: pi, kind: "defines".into(), idx: (0..gen::DEFINE_WORLDS).collect() });
            enumerated += gen::DEFINE_WORLDS as u64;
            for kind in faults::SINGLE_KINDS {
                let sp = faults::space(kind, &p.source);
                if sp == 0 {
                    continue;
                }
                // kinds whose space is small are enumerated completely even in the quick tier
                let cap = if ["splice_eol", "literal_boundary", "crlf", "lost_line", "dup_line", "swap_lines", "lost_sector", "eof", "bank_boundary"].contains(&kind) {
                    t.c16_sample.max(600)
                } else if kind == "nest" {
                    // deep nests cost 0.1-1 s each (the parser and the generator are super-linear in the
                    // depth): sampled in both tiers
                    t.c16_sample.min(480)
                } else {
                    t.c16_sample
                };
                let idx: Vec<usize> = if sp <= cap {
                    (0..sp).collect()
                } else {
                    // sample without replacement, always including both ends
                    let mut s = BTreeSet::new();
                    s.insert(0);
                    s.insert(sp - 1);
                    while s.len() < cap {
                        s.insert(r.usize_below(sp));
                    }
                    s.into_iter().collect()
                };
                enumerated += idx.len() as u64;
                for c in idx.chunks(400) {
                    items.push(Item::C16Enum { prog: pi, kind: kind.to_string(), idx: c.to_vec() });
                }
            }
        }
        if t.c16_sample == usize::MAX {
            exhaustive_kinds = faults::SINGLE_KINDS.iter().filter(|k| **k != "nest").map(|s| s.to_string()).collect();
        }
        items.extend(batches(prop, base, t.selftest, t.selftest + t.c16_worlds, 100, false));
        // generated programs, plain and with one fault
        let npg: u64 = if t.name == "quick" { 6_000 } else { 200_000 };
        let mut a = 0;
        while a < npg {
            items.push(Item::C16Progen { base, from: a, to: (a + 200).min(npg) });
            a += 200;
        }
    }
    // interleave big and small items so that the tail of the run stays parallel
    let n_items = items.len();
    agg.run(nw, items);
    for (k, v) in a2.stats.iter() {
        *agg.stats.entry(k.clone()).or_insert(0) += v;
    }
    agg.traces.extend(a2.traces.iter());
    for (k, v) in std::mem::take(&mut a2.keys) {
        let e = agg.keys.entry(k).or_insert((BTreeSet::new(), false));
        e.0.extend(v.0);
        e.1 |= v.1;
    }
    for (k, v) in std::mem::take(&mut a2.refs) {
        agg.refs.entry(k).or_default().extend(v);
    }
    agg.delivered.extend(a2.delivered.iter());
    agg.violations.extend(a2.violations.drain(..));
    let vp2 = std::mem::take(&mut a2.violation_proc);
    agg.violation_proc.extend(vp2);
    agg.deaths.extend(a2.deaths.drain(..));
    agg.samples.extend(a2.samples.drain(..));
    if !agg.broken.is_empty() {
        eprintln!("HARNESS: {:?}", agg.broken);
        return 2;
    }
    println!(
        "simc: search done: {} work items, {} worlds, {} jobs, {} raw violations, {} worker deaths, {:.1}s",
        n_items,
        agg.stats.get("worlds").copied().unwrap_or(0),
        agg.stats.get("jobs").copied().unwrap_or(0),
        agg.violations.len(),
        agg.deaths.len(),
        t0.elapsed().as_secs_f64()
    );

    // ---- phase 2: triage
    let known = load_known(&root);
    let mut exit = 0;
    let mut by_key: BTreeMap<String, Vec<VMsg>> = BTreeMap::new();
    // worker deaths become ABORT candidates, confirmed alone in a fresh process
    let deaths = std::mem::take(&mut agg.deaths);
    for (tag, status, diag, _item) in deaths {
        if status == "exit 3" {
            continue; // wall-clock hang (in a world or in a reference run): the worker sent a V before exiting
        }
        if let Some(mut w) = world_of_tag(prop, base, &tag, &corpus) {
            let mut class = classify_death(&status, &diag);
            if w.stdio != 0 && !class.starts_with("stack") && !class.starts_with("alloc@") {
                // the runtime could not print why it aborted (the world broke stderr): ask the same world with
                // its diagnostic streams intact, and keep that world if it dies too
                let mut w2 = w.clone();
                w2.stdio = 0;
                if let Err((s2, d2)) = run_worlds_fresh(prop, std::slice::from_ref(&w2), 60) {
                    if s2 != "harness" {
                        class = classify_death(&s2, &d2);
                        w = w2;
                    }
                }
            }
            let key = abort_key(&class, &w);
            by_key.entry(key.clone()).or_default().push(VMsg {
                tag,
                prop: prop.to_string(),
                class: "ABORT".into(),
                key,
                detail: format!("worker process died ({}): {}", status, diag.lines().find(|l| l.contains("overflowed its stack") || l.contains("memory allocation of") || l.contains("panicked at")).or(diag.lines().last()).unwrap_or("")),
                job_label: w.jobs.last().map(|j| j.label.clone()).unwrap_or_default(),
                job_key: w.jobs.last().map(|j| j.key()).unwrap_or(0),
                worlds: vec![w],
            });
        } else {
            eprintln!("HARNESS: worker died at unattributable tag {:?} ({})", tag, status);
            return 2;
        }
    }
    for v in std::mem::take(&mut agg.violations) {
        by_key.entry(v.key.clone()).or_default().push(v);
    }
    // C05 "in one process or across processes, regardless of what was compiled before": the reference
    // observations the workers computed in the middle of their histories must equal the observation
    // of the same request in a pristine process (the first and only thing that process does).
    let mut pristine_checked = 0usize;
    if prop == "C05" {
        let mut pristine = pristine_hashes(&corpus, nw);
        // plus a seeded sample of the other requests (soup programs, siblings): regenerate the job from
        // the tag of the world it appeared in and observe it in a pristine process too
        {
            let mut origins: Vec<&(usize, u64, String, usize)> = agg.ref_origin.iter().filter(|o| !pristine.contains_key(&o.1)).collect();
            let mut rs = Rng::new(mix(base, 0x5A));
            let want = if t.name == "quick" { 400 } else { 4000 };
            let mut picked: Vec<JobSpec> = Vec::new();
            let mut tries = 0;
            while picked.len() < want && !origins.is_empty() && tries < want * 3 {
                tries += 1;
                let o = origins.swap_remove(rs.usize_below(origins.len()));
                if let Some(w) = world_of_tag(prop, base, &o.2, &corpus) {
                    if let Some(j) = w.jobs.get(o.3) {
                        if j.key() == o.1 {
                            let mut cj = j.clone();
                            cj.reader = StreamSpec::canonical();
                            cj.writer = StreamSpec::canonical();
                            picked.push(cj);
                        }
                    }
                }
            }
            let extra = pristine_of_jobs(picked, nw);
            pristine.extend(extra);
        }
        pristine_checked = pristine.len();
        let mut refs = agg.proc_refs.clone();
        refs.extend(a2.proc_refs.iter().cloned());
        let mut tags = agg.proc_tags.clone();
        tags.extend(a2.proc_tags.iter().map(|(k, v)| (*k, v.clone())));
        let mut seen_keys = BTreeSet::new();
        for (procid, key, hash) in refs {
            let Some((raw, combined)) = pristine.get(&key) else { continue };
            if *raw == hash || !seen_keys.insert(key) {
                continue;
            }
            let p = combined;
            println!("simc: request {:016x}: observation inside worker process {} differs from its observation in a pristine process", key, procid);
            let job = corpus.iter().map(gen::job_of).find(|j| j.key() == key).or_else(|| {
                agg.ref_origin.iter().chain(a2.ref_origin.iter()).filter(|o| o.1 == key).find_map(|o| {
                    world_of_tag(prop, base, &o.2, &corpus).and_then(|w| w.jobs.get(o.3).cloned()).filter(|j| j.key() == key)
                })
            });
            let Some(job) = job else { continue };
            let hist = tags.get(&procid).cloned().unwrap_or_default();
            match prochist_violation(&root, prop, base, &corpus, &hist, &job, *p) {
                Some(path) => {
                    println!("VIOLATION property={} replay={}", prop, path);
                    exit = 1;
                }
                None => {
                    eprintln!("HARNESS: process-history divergence of request {:016x} could not be reproduced", key);
                    return 2;
                }
            }
            break;
        }
    }
    // the same for what RUST_LOG=debug|trace shows: a seeded sample of the Debug/Trace references the workers
    // computed in the middle of their histories must equal the same world in a pristine process
    if prop == "C05" && exit == 0 {
        let mut all: Vec<&(usize, String, usize, u8, String, u64)> = agg.dbg_refs.iter().chain(a2.dbg_refs.iter()).collect();
        let mut rs = Rng::new(mix(base, 0xDB));
        let want = if t.name == "quick" { 24 } else { 400 };
        let mut tags = agg.proc_tags.clone();
        tags.extend(a2.proc_tags.iter().map(|(k, v)| (*k, v.clone())));
        let mut checked = 0;
        while checked < want && !all.is_empty() {
            let o = all.swap_remove(rs.usize_below(all.len()));
            let Some(w) = world_of_tag(prop, base, &o.1, &corpus) else { continue };
            let Some(j) = w.jobs.get(o.2) else { continue };
            let mut cj = j.clone();
            cj.reader = StreamSpec::canonical();
            cj.writer = StreamSpec::canonical();
            let mut dw = World::solo("C05", cj);
            dw.log_level = o.3;
            checked += 1;
            let Some(pristine) = last_obs_hash(prop, std::slice::from_ref(&dw)) else { continue };
            if pristine == o.5 {
                continue;
            }
            println!("simc: Debug/Trace records of a request inside worker process {} differ from those of a pristine process (origin {}, job {})", o.0, o.1, o.2);
            let hist = tags.get(&o.0).cloned().unwrap_or_default();
            let cut = hist.iter().position(|x| *x == o.4).unwrap_or(hist.len());
            let full = regen_history(prop, base, &corpus, &hist[..cut]);
            match prochist_last_world(&root, prop, &full, dw.clone(), pristine) {
                Some(path) => {
                    println!("VIOLATION property={} replay={}", prop, path);
                    exit = 1;
                }
                None => {
                    eprintln!("HARNESS: process-history divergence of the Debug/Trace records of {} job {} could not be reproduced", o.1, o.2);
                    return 2;
                }
            }
            break;
        }
        agg.stats.insert("probe.debug_log_refs_checked_against_pristine_process".into(), checked as u64);
    }
    if selftest_pending && exit == 0 && prop == "C05" {
        // a world whose observations differed between the two self-test runs: compare it after the
        // history of the process that ran it with the same world alone in a pristine process
        let mut tags = a1.proc_tags.clone();
        tags.extend(a2.proc_tags.iter().map(|(k, v)| (*k, v.clone())));
        'outer: for t in nondet.iter().filter(|t| t.starts_with("c05:")).take(4) {
            let Some(w) = world_of_tag(prop, base, t, &corpus) else { continue };
            let Some(pristine) = last_obs_hash(prop, std::slice::from_ref(&w)) else { continue };
            for (_, hist) in tags.iter() {
                let Some(pos) = hist.iter().position(|x| x == t) else { continue };
                let full = regen_history(prop, base, &corpus, &hist[..pos]);
                if let Some(path) = prochist_last_world(&root, prop, &full, w.clone(), pristine) {
                    println!("simc: world {} is observed differently after the history of its worker process than alone in a pristine process", t);
                    println!("VIOLATION property={} replay={}", prop, path);
                    exit = 1;
                    break 'outer;
                }
            }
        }
    }
    if selftest_pending && exit == 0 && by_key.is_empty() {
        eprintln!("HARNESS: simulator nondeterministic (event digests differ between two runs of the same seed) and no divergence of the code under test explains it");
        return 2;
    }
    if std::env::var("VERIF_TRIAGE_ONLY").is_ok() {
        for (key, vs) in &by_key {
            let count = vs.len() as u64 + agg.suppressed.get(key).copied().unwrap_or(0);
            let listed = known.iter().any(|k| k.prop == prop && k.key == *key);
            println!("TRIAGE {} x{} key={}", if listed { "known" } else { "UNLISTED" }, count, key);
            for v in vs.iter().take(2) {
                let src = v.worlds.last().and_then(|w| w.jobs.last()).map(|j| String::from_utf8_lossy(&j.source.0).chars().take(200).collect::<String>()).unwrap_or_default();
                println!("    {} | {} | args {:?} | {}\n      src: {:?}", v.tag, v.job_label, v.worlds.last().and_then(|w| w.jobs.last()).map(|j| j.args.clone()), v.detail.chars().take(200).collect::<String>(), src);
            }
        }
        let _ = std::fs::remove_dir_all(crate::pool::scratch_base());
        return if by_key.keys().any(|k| !known.iter().any(|kf| kf.prop == prop && kf.key == *k)) { 1 } else { 0 };
    }
    let mut known_hits: BTreeMap<String, u64> = BTreeMap::new();
    let mut reported = 0;
    let mut unknown_keys = 0;
    for (key, vs) in &by_key {
        let count = vs.len() as u64 + agg.suppressed.get(key).copied().unwrap_or(0);
        if let Some(kf) = known.iter().find(|k| k.prop == prop && k.key == *key) {
            *known_hits.entry(kf.key.clone()).or_insert(0) += count;
            continue;
        }
        unknown_keys += 1;
        if reported >= 8 {
            println!("simc: further unlisted violation key not minimised: {} ({} occurrences)", key, count);
            exit = 1;
            continue;
        }
        // smallest world first
        let mut cands: Vec<&VMsg> = vs.iter().collect();
        cands.sort_by_key(|v| v.worlds.iter().map(|w| w.jobs.iter().map(|j| j.source.0.len()).sum::<usize>()).sum::<usize>());
        if key.starts_with("MEMGROW|") {
            // the search cap (64 MiB + 4 KiB per *input* byte) is a suspicion, like the 10 s backstop: macro
            // expansion multiplies the text the compiler works on. A suspect that completes alone under 1.1 GiB
            // (the workers' address space is 1.5 GiB) is large but finite, not unbounded growth
            std::env::set_var("SIMC_MEM_CAP_MB", "1100");
            let finite = cands.iter().take(3).all(|v| match run_worlds_fresh(prop, &v.worlds, 200) {
                Ok((vs, _)) => !vs.iter().any(|x| x.class == "MEMGROW" || x.class == "HANG" || x.class == "HANGWALL"),
                Err(_) => false,
            });
            std::env::remove_var("SIMC_MEM_CAP_MB");
            if finite {
                println!("simc: memory suspect {} completed under a 1.1 GiB heap when re-run alone: dropped", key);
                *agg.stats.entry("memory_suspects_dropped".into()).or_insert(0) += 1;
                unknown_keys -= 1;
                continue;
            }
        }
        let mut done = false;
        for v in cands.iter().take(3) {
            match confirm_and_minimise(&root, v) {
                Triage::Reported(path) => {
                    println!("simc: {} x{}: {}", key, count, v.detail.chars().take(300).collect::<String>());
                    println!("VIOLATION property={} replay={}", prop, path);
                    exit = 1;
                    reported += 1;
                    done = true;
                    break;
                }
                Triage::NotReproduced => continue,
                Triage::Harness(e) => {
                    eprintln!("HARNESS: {}", e);
                    return 2;
                }
            }
        }
        if !done && prop == "C05" {
            // The divergence may need state that the reference-first replay itself resets or masks
            // (process-wide memo filled by whichever compilation comes first): decide it against a
            // pristine process instead - history = the world that diverged, then the request alone.
            for v in cands.iter().take(3) {
                let Some(w) = v.worlds.last() else { continue };
                let Some(job) = w.jobs.iter().find(|j| j.key() == v.job_key) else { continue };
                let mut cj = job.clone();
                cj.reader = StreamSpec::canonical();
                cj.writer = StreamSpec::canonical();
                let Some(pristine) = last_obs_hash(prop, &[World::solo(prop, cj.clone())]) else { continue };
                if let Some(path) = prochist_from_worlds(&root, prop, std::slice::from_ref(w), &cj, pristine) {
                    println!("simc: {} x{}: {} (reproduced against a pristine process)", key, count, v.detail.chars().take(300).collect::<String>());
                    println!("VIOLATION property={} replay={}", prop, path);
                    exit = 1;
                    reported += 1;
                    done = true;
                    break;
                }
            }
            // still not: use everything the reporting worker process had run before that world
            if !done {
                let mut tags = agg.proc_tags.clone();
                tags.extend(a2.proc_tags.iter().map(|(k, v)| (*k, v.clone())));
                for v in cands.iter().take(2) {
                    let Some(procid) = agg.violation_proc.get(&v.tag) else { continue };
                    let Some(hist) = tags.get(procid) else { continue };
                    let Some(pos) = hist.iter().position(|x| *x == v.tag) else { continue };
                    let Some(w) = v.worlds.last() else { continue };
                    let Some(job) = w.jobs.iter().find(|j| j.key() == v.job_key) else { continue };
                    let mut cj = job.clone();
                    cj.reader = StreamSpec::canonical();
                    cj.writer = StreamSpec::canonical();
                    let Some(pristine) = last_obs_hash(prop, &[World::solo(prop, cj.clone())]) else { continue };
                    let mut full = regen_history(prop, base, &corpus, &hist[..pos]);
                    full.push(w.clone());
                    if let Some(path) = prochist_from_worlds(&root, prop, &full, &cj, pristine) {
                        println!("simc: {} x{}: {} (reproduced from the worker's process history)", key, count, v.detail.chars().take(300).collect::<String>());
                        println!("VIOLATION property={} replay={}", prop, path);
                        exit = 1;
                        reported += 1;
                        done = true;
                        break;
                    }
                }
            }
            if done {
                continue;
            }
            if exit == 1 {
                // a violation of this property has been confirmed already; this one depends on state the
                // replays could not rebuild in isolation (most likely the same hidden state)
                println!("simc: divergence {} x{} seen during the search was not reproduced in isolation; not reported separately", key, count);
                unknown_keys -= 1;
                continue;
            }
        }
        if !done && key.starts_with("HANG|wall|") {
            // a slow-but-finite job that outlasted the search backstop under load: not a hang
            println!("simc: wall-clock suspect {} finished when re-run alone with a 200 s budget: dropped", key);
            *agg.stats.entry("wall_suspects_dropped".into()).or_insert(0) += 1;
            unknown_keys -= 1;
            continue;
        }
        if !done && prop == "C05" {
            // not reproducible from anything the simulator controls: does the same world differ between fresh
            // processes (addresses, ASLR, a source of nondeterminism outside the seams)? That is a violation of
            // its own class, with the world as the replay
            for v in cands.iter().take(3) {
                if let Some(w) = v.worlds.last() {
                    if let Some(code) = xproc_violation(&root, prop, std::slice::from_ref(w), &format!("{} seen during the search; the same world is observed differently in fresh processes", key)) {
                        if code == 1 {
                            exit = 1;
                            reported += 1;
                            done = true;
                            break;
                        }
                    }
                }
            }
            if done {
                continue;
            }
        }
        if !done {
            eprintln!("HARNESS: violation {} seen during the search did not reproduce in a fresh process ({} candidates tried)", key, cands.len().min(3));
            return 2;
        }
    }
    for k in &known {
        if k.prop == prop {
            let n = known_hits.get(&k.key).copied().unwrap_or(0);
            println!("KNOWN-FINDING: property={} {} [key={}] (observed {} times in this run)", prop, k.what, k.key, n);
        }
    }

    // ---- phase 3: evidence
    let wall = t0.elapsed().as_secs_f64();
    let worlds = agg.stats.get("worlds").copied().unwrap_or(0);
    let jobs = agg.stats.get("jobs").copied().unwrap_or(0);
    let (distinct_nontrivial, rule) = if prop == "C05" {
        let n = agg.keys.values().filter(|(c, nt)| *nt && c.len() >= 2).count() as u64;
        (n, "evaluations = compilations executed (jobs) inside seeded worlds; each world = 1-3 caller threads x 1-6 jobs with per-thread SipHash keys, same-thread history (incl. failing/panicking/fault-aborted jobs), baton-scheduled interleaving at every I/O call and tick, chunked/interrupted input, short/interrupted writes, optional hard I/O error; plus a directed pass of every corpus program under N fresh hash keys. distinct_nontrivial = number of distinct compilation requests (source bytes, include tree, option vector) that were observed under >=2 distinct conditions (hash key, history prefix, delivery schedule, pre-emption count) AND whose variables or functions map holds >=2 entries (so iteration order can matter)".to_string())
    } else {
        (agg.delivered.len() as u64, "evaluations = compilations executed; enumerated part: for every corpus program every (quick: sampled) single fault of the kinds eof/torn_tail/lost token,line,sector/dup token,line/swap tokens,lines/bit_flip/byte_subst(hostile set)/crlf/token_subst/token_insert(dictionary); seeded part: 2-3 stacked faults, stutter duplication up to 20000x, torn tails, include-tree faults, hostile option sets, chunked/interrupted/failing reader and writer, history. distinct_nontrivial = number of distinct delivered (source bytes, include tree) on which at least one fault fired (hash-deduplicated)".to_string())
    };
    let faults_fired: BTreeMap<&String, &u64> = agg.stats.iter().filter(|(k, _)| k.starts_with("fault.")).collect();
    let probes: BTreeMap<&String, &u64> = agg.stats.iter().filter(|(k, _)| k.starts_with("probe.") || k.starts_with("dim.")).collect();
    let outcomes: BTreeMap<&String, &u64> = agg.stats.iter().filter(|(k, _)| k.starts_with("outcome.")).collect();
    let ticks: BTreeMap<&String, &u64> = agg.stats.iter().filter(|(k, _)| k.starts_with("ticks")).collect();
    let holes: Vec<&str> = ["probe.order_tie", "probe.two_or_more_literals", "probe.split_utf8", "probe.split_crlf", "probe.split_splice", "probe.history_after_err", "probe.history_after_panic", "probe.history_after_fault_abort", "fault.short_write", "fault.eintr_write", "fault.eintr_read"]
        .into_iter()
        .filter(|p| prop == "C05" && agg.stats.get(*p).copied().unwrap_or(0) == 0)
        .collect();
    let orders_reached: BTreeMap<String, serde_json::Value> = {
        let fact = |n: u8| (1..=n as u64).product::<u64>();
        let mut by_n: BTreeMap<u8, (u64, u64, u64)> = BTreeMap::new(); // size -> (maps, orders seen, orders possible)
        for (n, orders) in agg.map_orders.values() {
            let e = by_n.entry(*n).or_insert((0, 0, 0));
            e.0 += 1;
            e.1 += orders.len() as u64;
            e.2 += fact(*n);
        }
        by_n.iter()
            .map(|(n, (maps, seen, possible))| (format!("maps_of_{}_entries", n), json!({"distinct_key_sets": maps, "iteration_orders_seen": seen, "iteration_orders_possible": possible})))
            .collect()
    };
    let ev = json!({
        "property_id": prop,
        "tier": t.name,
        "seed": seed as i64,
        "level": if prop == "C05" { "exploration" } else { "fault_enumeration" },
        "coverage": {
            "evaluations": jobs,
            "distinct_nontrivial": distinct_nontrivial,
            "rule": rule,
            "samples": agg.samples,
            "exhaustive": false,
            "exhaustive_subspace": if exhaustive_kinds.is_empty() { json!(null) } else { json!({"single_fault_kinds": exhaustive_kinds, "worlds": enumerated, "note": "every single fault of these kinds on every corpus program was executed"}) },
            "simulated_runs_worlds": worlds,
            "runs_per_hour": (worlds as f64 / wall * 3600.0) as u64,
            "seeds_per_hour": (worlds as f64 / wall * 3600.0) as u64,
            "simulated_time": "n/a - the system has no timers or deadlines; steps are reported instead",
            "simulated_steps_ticks": agg.stats.get("ticks").copied().unwrap_or(0),
            "simulated_io_calls": agg.stats.get("io.read_calls").copied().unwrap_or(0) + agg.stats.get("io.write_calls").copied().unwrap_or(0),
            "scheduling_points": agg.stats.get("sched.points").copied().unwrap_or(0),
            "scheduling_decisions": agg.stats.get("sched.decisions").copied().unwrap_or(0),
            "preemptions": agg.stats.get("sched.switches").copied().unwrap_or(0),
            "distinct_schedule_traces": agg.traces.len(),
            "distinct_requests": agg.keys.len(),
            "fault_kinds_fired": faults_fired,
            "probes": probes,
            "coverage_holes_probes_at_zero": holes,
            "outcomes": outcomes,
            "ticks_by_site": ticks,
            "pristine_process_references_compared": pristine_checked,
            "hash_iteration_orders_reached": orders_reached,
            "selftest": {"seeds_run_twice": a1.digests.len(), "worker_counts": [1.max(nw / 4), nw], "digest_mismatches": 0},
            "components": {
                "real": ["cc6502 library built from /repo working tree (cpp, pest parser, compile, generate, assemble)", "the repository's own builder src/tests/build.rs::simple_build", "Args via its clap parser", "std HashMap/RandomState/SipHash", "real include files on tmpfs", "std::io::BufRead::read_line / Write::write_all"],
                "stubbed_by_simulator": ["getrandom (hash seeds)", "input BufRead", "output Write", "caller-thread scheduler", "include tree content", "step-fuel callback", "stdout/stderr capture", "log sink"]
            },
            "cargo_features": features(),
            "known_findings_observed": known_hits,
            "unlisted_violation_keys": unknown_keys,
            "worker_deaths": by_key.values().flatten().filter(|v| v.class == "ABORT").count(),
        },
        "assumptions": [
            "std resolves `getrandom` to the harness's definition (checked: probe.getrandom_calls > 0 means keys came from the simulator)",
            "the builder is the repository's simple_build; downstream builders (cc2600/cc7800) are outside this repository",
            "sampling, not enumeration, over hash keys, histories, schedules and fault combinations",
            "environment: file-system content held fixed; working directory (one of two empty directories), 24 environment variables (locale, time zone, home, user, terminal, TMPDIR, PWD, SOURCE_DATE_EPOCH, compiler-ish include/flags variables, RUST_LOG) and the process log level are world dimensions; any other variable is held fixed; real clock never read by the code under test"
        ],
        "wall_s": wall,
        "violations": if exit == 0 { 0 } else { unknown_keys as i64 }
    });
    let suffix = if features() == "default" { String::new() } else { format!(".{}", features()) };
    let evdir = root.join("evidence");
    let _ = std::fs::create_dir_all(&evdir);
    let evpath = evdir.join(format!("{}{}.json", prop, suffix));
    if let Err(e) = std::fs::write(&evpath, serde_json::to_string_pretty(&ev).unwrap()) {
        eprintln!("HARNESS: cannot write evidence: {}", e);
        return 2;
    }
    println!("simc: evidence written to {} ({} worlds, {} jobs, {:.1}s, exit {})", evpath.display(), worlds, jobs, wall, exit);
    let _ = std::fs::remove_dir_all(crate::pool::scratch_base());
    exit
}

fn classify_death(status: &str, diag: &str) -> String {
    if diag.contains("has overflowed its stack") {
        "stack".into()
    } else if let Some(i) = diag.find("memory allocation of") {
        // the allocation-failure backtrace names the function of the code under test that asked
        let site = diag[i..]
            .lines()
            .find_map(|l| l.find("cc6502::").map(|k| l[k..].trim().to_string()))
            .unwrap_or_else(|| "unknown".into());
        // frames of the pest-generated parser differ by grammar rule: one site for the whole parser
        let site = if site.contains("Cc2600Parser") { "cc6502::compile::Cc2600Parser (pest-generated parser)".to_string() } else { site };
        format!("alloc@{}", site)
    } else {
        status.replace(' ', "")
    }
}

/// Worker deaths are keyed by how the process died and by the coarse shape of the input: a cyclic
/// include fault, a long repetition (some token occurs >= 500 times), or the base program otherwise.
fn abort_key(class: &str, w: &World) -> String {
    if class.starts_with("alloc@") {
        return format!("ABORT|{}", class);
    }
    let job = w.jobs.last();
    let src = job.map(|j| j.source.0.clone()).unwrap_or_default();
    let inc: Vec<String> = job
        .map(|j| j.faults.iter().filter(|f| f.starts_with("include:self_include") || f.starts_with("include:mutual_include")).map(|f| f.split(':').nth(1).unwrap_or("").to_string()).collect())
        .unwrap_or_default();
    if !inc.is_empty() {
        return format!("ABORT|{}|cyclic include", class);
    }
    let toks = faults::tokens(&src);
    let mut counts: BTreeMap<&[u8], usize> = BTreeMap::new();
    for t in &toks {
        *counts.entry(&src[t.0..t.1]).or_insert(0) += 1;
    }
    // repetition glued into one token ("sizeofsizeofsizeof..."): most frequent non-blank 6-byte window
    if src.len() > 3000 {
        for w in src.windows(6) {
            if !w.iter().all(|b| b.is_ascii_whitespace()) {
                *counts.entry(w).or_insert(0) += 1;
            }
        }
    }
    let top = counts.values().max().copied().unwrap_or(0);
    if top >= 500 {
        format!("ABORT|{}|long repetition", class)
    } else {
        let label = job.map(|j| j.label.split(' ').next().unwrap_or("").to_string()).unwrap_or_default();
        format!("ABORT|{}|{}", class, label)
    }
}

/// Observation hash of every corpus program compiled canonically as the only job of a fresh process.
/// key -> (raw observation hash, combined hash as `last_obs_hash` computes it)
fn pristine_hashes(corpus: &[Program], nw: usize) -> BTreeMap<u64, (u64, u64)> {
    pristine_of_jobs(corpus.iter().map(gen::job_of).collect(), nw)
}

fn pristine_of_jobs(jobs: Vec<JobSpec>, nw: usize) -> BTreeMap<u64, (u64, u64)> {
    let jobs = std::sync::Arc::new(jobs);
    let next = std::sync::Arc::new(std::sync::atomic::AtomicUsize::new(0));
    let out = std::sync::Arc::new(std::sync::Mutex::new(BTreeMap::new()));
    let mut hs = Vec::new();
    for _ in 0..nw {
        let (jobs, next, out) = (jobs.clone(), next.clone(), out.clone());
        hs.push(std::thread::spawn(move || loop {
            let i = next.fetch_add(1, std::sync::atomic::Ordering::SeqCst);
            if i >= jobs.len() {
                break;
            }
            if let Ok((_, r)) = run_worlds_fresh("C05", &[World::solo("C05", jobs[i].clone())], 60) {
                if let Some(o) = r.obs.first() {
                    out.lock().unwrap().insert(o.2, (o.3, { let mut h = crate::rng::Fnv::new(); h.write_u64(o.1 as u64); h.write_u64(o.3); h.finish() }));
                }
            }
        }));
    }
    for h in hs {
        let _ = h.join();
    }
    let m = out.lock().unwrap().clone();
    m
}

/// Worlds a worker process ran, regenerated from their tags (references become canonical solo worlds).
fn regen_history(prop: &str, base: u64, corpus: &[Program], tags: &[String]) -> Vec<World> {
    let mut v: Vec<World> = Vec::new();
    for t in tags {
        if let Some(k) = t.strip_prefix("ref:") {
            let key = u64::from_str_radix(k, 16).unwrap_or(0);
            let job = v.iter().rev().take(3).flat_map(|w| w.jobs.iter()).find(|j| j.key() == key).cloned();
            if let Some(mut j) = job {
                j.reader = StreamSpec::canonical();
                j.writer = StreamSpec::canonical();
                v.push(World::solo(prop, j));
            }
        } else if let Some(w) = world_of_tag(prop, base, t, corpus) {
            v.push(w);
        }
    }
    v
}

/// Observation hashes of the jobs of the last world, after running all `worlds` in one fresh process
/// (combined into one value; None when the process died).
fn last_obs_hash(prop: &str, worlds: &[World]) -> Option<u64> {
    match run_worlds_fresh(prop, worlds, 60) {
        Ok((_, r)) => {
            let mut h = crate::rng::Fnv::new();
            let mut n = 0;
            for o in r.obs.iter().filter(|o| o.0 == worlds.len() - 1) {
                h.write_u64(o.1 as u64);
                h.write_u64(o.3);
                n += 1;
            }
            if n == 0 {
                None
            } else {
                Some(h.finish())
            }
        }
        Err(_) => None,
    }
}

/// Reproduce and minimise "request observed differently after a process history"; writes the replay.
fn prochist_violation(root: &std::path::Path, prop: &str, base: u64, corpus: &[Program], hist: &[String], job: &JobSpec, pristine: u64) -> Option<String> {
    let target = format!("ref:{:016x}", job.key());
    let cut = hist.iter().position(|t| *t == target).unwrap_or(hist.len());
    let full = regen_history(prop, base, corpus, &hist[..cut]);
    prochist_from_worlds(root, prop, &full, job, pristine)
}

/// `full`: worlds a process ran before it observed `job`; `pristine`: observation hash of `job` alone in a fresh process.
fn prochist_from_worlds(root: &std::path::Path, prop: &str, full: &[World], job: &JobSpec, pristine: u64) -> Option<String> {
    let mut cj = job.clone();
    cj.reader = StreamSpec::canonical();
    cj.writer = StreamSpec::canonical();
    prochist_last_world(root, prop, full, World::solo(prop, cj), pristine)
}

/// `last`: a world whose observations after `full` differ from `pristine` (its observations alone in a fresh process).
fn prochist_last_world(root: &std::path::Path, prop: &str, full: &[World], last: World, pristine: u64) -> Option<String> {
    let name_key = last.jobs.iter().fold(last.seed, |a, j| crate::rng::mix(a, j.key()));
    let differs = |h: &[World]| -> bool {
        let mut w = h.to_vec();
        w.push(last.clone());
        matches!(last_obs_hash(prop, &w), Some(x) if x != pristine)
    };
    let mut history: Option<Vec<World>> = None;
    for n in [20usize, 200, 2000, usize::MAX] {
        let start = full.len().saturating_sub(n);
        if differs(&full[start..]) {
            history = Some(full[start..].to_vec());
            break;
        }
        if start == 0 {
            break;
        }
    }
    let history = history?;
    let mut budget = 120u32;
    let min = ddmin(&history, |cand| differs(cand), &mut budget);
    let mut worlds = if differs(&min) { min } else { history };
    worlds.push(last);
    let rf = ReplayFile {
        property: prop.to_string(),
        violation_class: "PROCHIST".into(),
        violation_key: "PROCHIST|observation depends on what the process compiled before".into(),
        detail: format!("the last world's observation after the preceding {} world(s) in the same process differs from its observation in a pristine process", worlds.len() - 1),
        cargo_features: features().to_string(),
        worlds,
        recorded: Vec::new(),
    };
    let dir = root.join("replays");
    let _ = std::fs::create_dir_all(&dir);
    let path = dir.join(format!("{}-PROCHIST-{:016x}.json", prop, name_key));
    std::fs::write(&path, serde_json::to_string_pretty(&rf).unwrap()).ok()?;
    Some(path.to_string_lossy().to_string())
}

fn world_of_tag(prop: &str, base: u64, tag: &str, corpus: &[Program]) -> Option<World> {
    let p: Vec<&str> = tag.split(':').collect();
    match (prop, p.first().copied()?) {
        ("C05", "c05") => Some(gen::c05_world(mix(base, p.get(1)?.parse().ok()?), corpus).0),
        ("C05", "c05k") => Some(gen::c05_key_world(base, p.get(1)?.parse().ok()?, p.get(2)?.parse().ok()?, corpus)),
        ("C16", "c16") => Some(gen::c16_world(mix(base ^ 0xC16, p.get(1)?.parse().ok()?), corpus)),
        ("C16", "c16e") => Some(gen::c16_enum_world(corpus, p.get(1)?.parse().ok()?, p.get(2)?, p.get(3)?.parse().ok()?)),
        (_, "dlv") => Some(gen::delivery_world(prop, corpus, p.get(1)?.parse().ok()?, p.get(2)?.parse().ok()?)),
        ("C16", "c16p") => Some(gen::c16_progen_world(base, p.get(1)?.parse().ok()?)),
        _ => None,
    }
}

fn find_request(corpus: &[Program], _base: u64, _t: &Tier, key: u64) -> Option<World> {
    for p in corpus {
        let j = gen::job_of(p);
        if j.key() == key {
            return Some(World::solo("C05", j));
        }
    }
    None
}

// ---------------------------------------------------------------- confirmation, minimisation, replay

enum Triage {
    Reported(String),
    NotReproduced,
    Harness(String),
}

/// Does running `worlds` in a fresh process show a violation with `key` (or, for ABORT, die)?
fn reproduces(prop: &str, class: &str, key: &str, worlds: &[World]) -> Result<bool, String> {
    reproduces_w(prop, class, key, worlds, if class == "HANGWALL" { 200 } else { 60 })
}

fn reproduces_w(prop: &str, class: &str, key: &str, worlds: &[World], wall_s: u64) -> Result<bool, String> {
    match run_worlds_fresh(prop, worlds, wall_s) {
        Ok((vs, _)) => Ok(vs.iter().any(|v| v.key == key)),
        Err((status, diag)) => {
            if status == "harness" {
                return Err(diag);
            }
            if class == "ABORT" {
                let c = classify_death(&status, &diag);
                Ok(worlds.last().map(|w| abort_key(&c, w) == key).unwrap_or(false))
            } else {
                Ok(false)
            }
        }
    }
}

fn ddmin<T: Clone>(items: &[T], mut test: impl FnMut(&[T]) -> bool, budget: &mut u32) -> Vec<T> {
    let mut cur: Vec<T> = items.to_vec();
    let mut n = 2usize;
    while cur.len() >= 2 && *budget > 0 {
        let chunk = cur.len().div_ceil(n);
        let mut reduced = false;
        let mut i = 0;
        while i < cur.len() && *budget > 0 {
            let mut cand: Vec<T> = Vec::with_capacity(cur.len());
            cand.extend_from_slice(&cur[..i]);
            cand.extend_from_slice(&cur[(i + chunk).min(cur.len())..]);
            *budget -= 1;
            if !cand.is_empty() && test(&cand) {
                cur = cand;
                n = (n - 1).max(2);
                reduced = true;
            } else {
                i += chunk;
            }
        }
        if !reduced {
            if n >= cur.len() {
                break;
            }
            n = (n * 2).min(cur.len());
        }
    }
    cur
}

fn set_source_for_key(worlds: &mut [World], key: u64, src: &[u8]) {
    for w in worlds.iter_mut() {
        for j in w.jobs.iter_mut() {
            if j.key() == key {
                j.source = Bytes(src.to_vec());
            }
        }
    }
}

fn minimise(v: &VMsg) -> Vec<World> {
    let prop = v.prop.as_str();
    let class = v.class.as_str();
    let key = v.key.as_str();
    let mut best: Vec<World> = v.worlds.clone();
    // a wall-clock hang costs its whole budget per test: few tests, short budget (the final
    // confirmation of the minimised worlds uses the full 200 s again)
    let hangwall = class == "HANGWALL";
    let mut budget: u32 = if hangwall { 24 } else { 300 };
    let wall_s: u64 = if hangwall { 12 } else { 60 };
    let mut try_it = |cand: &Vec<World>, best: &mut Vec<World>, budget: &mut u32| -> bool {
        if *budget == 0 {
            return false;
        }
        *budget -= 1;
        if matches!(reproduces_w(prop, class, key, cand, wall_s), Ok(true)) {
            *best = cand.clone();
            true
        } else {
            false
        }
    };
    let culprit = v.job_key;
    // 1. keep only the jobs of the culprit request in the last world
    {
        let mut c = best.clone();
        if let Some(w) = c.last_mut() {
            let keep: Vec<usize> = (0..w.jobs.len()).filter(|i| w.jobs[*i].key() == culprit).collect();
            if !keep.is_empty() && keep.len() < w.jobs.len() {
                let newjobs: Vec<JobSpec> = keep.iter().map(|i| w.jobs[*i].clone()).collect();
                for t in w.threads.iter_mut() {
                    t.jobs = t.jobs.iter().filter_map(|j| keep.iter().position(|k| k == j)).collect();
                }
                w.threads.retain(|t| !t.jobs.is_empty());
                w.jobs = newjobs;
                try_it(&c, &mut best, &mut budget);
            }
        }
    }
    // 2. canonical scheduling, one thread
    {
        let mut c = best.clone();
        if let Some(w) = c.last_mut() {
            if w.sched != SchedSpec::Sequential {
                w.sched = SchedSpec::Sequential;
                try_it(&c, &mut best, &mut budget);
            }
        }
        let mut c = best.clone();
        if let Some(w) = c.last_mut() {
            if w.threads.len() > 1 {
                let all: Vec<usize> = w.threads.iter().flat_map(|t| t.jobs.clone()).collect();
                let k = w.threads[0].hash_key.clone();
                w.threads = vec![crate::world::ThreadSpec { hash_key: k, jobs: all }];
                w.sched = SchedSpec::Sequential;
                try_it(&c, &mut best, &mut budget);
            }
        }
    }
    // 3. drop jobs one by one (history), canonical delivery, zero hash key, fewer options
    let mut ji = 0;
    while best.last().map(|w| ji < w.jobs.len()).unwrap_or(false) {
        let mut c = best.clone();
        let w = c.last_mut().unwrap();
        if w.jobs.len() > 1 {
            w.jobs.remove(ji);
            for t in w.threads.iter_mut() {
                t.jobs = t.jobs.iter().filter(|j| **j != ji).map(|j| if *j > ji { *j - 1 } else { *j }).collect();
            }
            w.threads.retain(|t| !t.jobs.is_empty());
            if try_it(&c, &mut best, &mut budget) {
                continue;
            }
        }
        ji += 1;
    }
    for wi in 0..best.len() {
        for ji in 0..best[wi].jobs.len() {
            for what in 0..3 {
                let mut c = best.clone();
                let j = &mut c[wi].jobs[ji];
                match what {
                    0 if !j.reader.is_canonical() => j.reader = StreamSpec::canonical(),
                    1 if !j.writer.is_canonical() => j.writer = StreamSpec::canonical(),
                    2 if j.args.len() > 1 && prop == "C16" => j.args = vec!["-O1".into()],
                    _ => continue,
                }
                try_it(&c, &mut best, &mut budget);
            }
        }
        for ti in 0..best[wi].threads.len() {
            if best[wi].threads[ti].hash_key != gen::ZERO_KEY {
                let mut c = best.clone();
                c[wi].threads[ti].hash_key = gen::ZERO_KEY.to_string();
                try_it(&c, &mut best, &mut budget);
            }
        }
    }
    // 4. shrink the culprit source: lines, then tokens (same text for every job of the request)
    let src = best.iter().flat_map(|w| w.jobs.iter()).find(|j| j.key() == culprit).map(|j| j.source.0.clone());
    if let Some(src) = src {
        let mut cur_key = culprit;
        let mut cur_src = src;
        for pass in 0..2 {
            let spans = if pass == 0 { faults::lines(&cur_src) } else { faults::tokens(&cur_src) };
            if spans.len() < 2 {
                continue;
            }
            let pieces: Vec<Vec<u8>> = if pass == 0 {
                spans.iter().map(|s| cur_src[s.0..s.1].to_vec()).collect()
            } else {
                // tokens keep their leading whitespace
                let mut v = Vec::new();
                let mut prev = 0;
                for s in &spans {
                    v.push(cur_src[prev..s.1].to_vec());
                    prev = s.1;
                }
                if prev < cur_src.len() {
                    v.push(cur_src[prev..].to_vec());
                }
                v
            };
            let snapshot = best.clone();
            let kk = cur_key;
            let mut local_budget = budget.min(if pass == 0 { 80 } else { 150 });
            let spent0 = local_budget;
            let result = ddmin(
                &pieces,
                |cand| {
                    let joined: Vec<u8> = cand.concat();
                    let mut c = snapshot.clone();
                    set_source_for_key(&mut c, kk, &joined);
                    matches!(reproduces_w(prop, class, key, &c, wall_s), Ok(true))
                },
                &mut local_budget,
            );
            budget = budget.saturating_sub(spent0 - local_budget);
            let joined: Vec<u8> = result.concat();
            if joined.len() < cur_src.len() {
                let mut c = best.clone();
                set_source_for_key(&mut c, cur_key, &joined);
                if matches!(reproduces_w(prop, class, key, &c, wall_s), Ok(true)) {
                    best = c;
                    cur_src = joined;
                    cur_key = best.iter().flat_map(|w| w.jobs.iter()).find(|j| j.source.0 == cur_src).map(|j| j.key()).unwrap_or(cur_key);
                }
            }
        }
    }
    // 5. make the schedule and delivery explicit is not needed: specs are seeds of private PRNG streams,
    //    the replay file is self-contained and does not depend on VERIF_SEED any more.
    best
}

fn confirm_and_minimise(root: &std::path::Path, v: &VMsg) -> Triage {
    match reproduces(&v.prop, &v.class, &v.key, &v.worlds) {
        Err(e) => return Triage::Harness(e),
        Ok(false) => return Triage::NotReproduced,
        Ok(true) => {}
    }
    let min = minimise(v);
    let worlds = match reproduces(&v.prop, &v.class, &v.key, &min) {
        Ok(true) => min,
        _ => v.worlds.clone(),
    };
    let recorded = match run_worlds_fresh(&v.prop, &worlds, 60) {
        Ok((_, r)) => r.traces,
        Err(_) => Vec::new(),
    };
    let rf = ReplayFile {
        property: v.prop.clone(),
        violation_class: v.class.clone(),
        violation_key: v.key.clone(),
        detail: v.detail.clone(),
        cargo_features: features().to_string(),
        worlds,
        recorded,
    };
    let dir = root.join("replays");
    let _ = std::fs::create_dir_all(&dir);
    let slug: String = v.key.chars().map(|c| if c.is_ascii_alphanumeric() { c } else { '_' }).take(60).collect();
    let path = dir.join(format!("{}-{}-{:08x}.json", v.prop, slug, crate::rng::hash_bytes(v.key.as_bytes()) as u32));
    if let Err(e) = std::fs::write(&path, serde_json::to_string_pretty(&rf).unwrap()) {
        return Triage::Harness(format!("cannot write replay: {}", e));
    }
    Triage::Reported(path.to_string_lossy().to_string())
}

/// Same world(s) in several fresh processes: different observations => C05 violation (class XPROC).
fn xproc_violation(root: &std::path::Path, prop: &str, worlds: &[World], why: &str) -> Option<i32> {
    let mut seen: BTreeSet<String> = BTreeSet::new();
    for _ in 0..6 {
        match run_worlds_fresh(prop, worlds, 60) {
            Ok((_, r)) => {
                seen.insert(format!("{:?}", r.digests));
            }
            Err((s, d)) => {
                seen.insert(format!("died {} {}", s, d));
            }
        }
    }
    if seen.len() > 1 {
        let rf = ReplayFile {
            property: prop.to_string(),
            violation_class: "XPROC".into(),
            violation_key: "XPROC|digest".into(),
            detail: why.to_string(),
            cargo_features: features().to_string(),
            worlds: worlds.to_vec(),
            recorded: Vec::new(),
        };
        let dir = root.join("replays");
        let _ = std::fs::create_dir_all(&dir);
        let path = dir.join(format!("{}-XPROC-{:08x}.json", prop, crate::rng::hash_bytes(format!("{:?}", seen).as_bytes()) as u32));
        let _ = std::fs::write(&path, serde_json::to_string_pretty(&rf).unwrap());
        println!("simc: {}: {} distinct event digests over 6 fresh processes", why, seen.len());
        println!("VIOLATION property={} replay={}", prop, path.display());
        return Some(1);
    }
    None
}

pub fn replay(path: &str) -> i32 {
    let s = match std::fs::read_to_string(path) {
        Ok(s) => s,
        Err(e) => {
            eprintln!("HARNESS: cannot read {}: {}", path, e);
            return 2;
        }
    };
    let rf: ReplayFile = match serde_json::from_str(&s) {
        Ok(r) => r,
        Err(e) => {
            eprintln!("HARNESS: bad replay file: {}", e);
            return 2;
        }
    };
    if rf.cargo_features != features() {
        println!("simc: note: replay was recorded with cargo features {:?}, this binary has {:?}", rf.cargo_features, features());
    }
    println!("simc: replaying {} ({} world(s)), expected {} {}", path, rf.worlds.len(), rf.violation_class, rf.violation_key);
    if rf.violation_class == "PROCHIST" {
        let after = last_obs_hash(&rf.property, &rf.worlds);
        let alone = last_obs_hash(&rf.property, &rf.worlds[rf.worlds.len() - 1..]);
        println!("simc: observation of the last world after the recorded history: {:?}; alone in a pristine process: {:?}", after, alone);
        return if after != alone {
            println!("VIOLATION property={} replay={}", rf.property, path);
            1
        } else {
            println!("simc: no violation on this tree");
            0
        };
    }
    if rf.violation_class == "XPROC" {
        let root = verif_root();
        return xproc_violation(&root, &rf.property, &rf.worlds, &rf.detail).unwrap_or_else(|| {
            println!("simc: not reproduced: identical digests in 6 fresh processes");
            0
        });
    }
    match run_worlds_fresh(&rf.property, &rf.worlds, if rf.violation_class == "HANGWALL" { 200 } else { 60 }) {
        Ok((vs, r)) => {
            for o in &r.outcomes {
                println!("  {}", o);
            }
            if !rf.recorded.is_empty() && r.traces.len() == rf.recorded.len() {
                let same_sched = r.traces.iter().zip(&rf.recorded).all(|(a, b)| a.0 == b.0);
                let same_digest = r.traces.iter().zip(&rf.recorded).all(|(a, b)| a.1 == b.1);
                println!(
                    "simc: schedule decisions {} the recorded ones; event digests {} the recorded ones",
                    if same_sched { "equal" } else { "DIFFER from" },
                    if same_digest { "equal" } else { "differ from (expected when the tree changed)" }
                );
            }
            if r.stats.get("replay.trace_mismatch").copied().unwrap_or(0) > 0 {
                println!("simc: warning: recorded schedule trace could not be followed exactly");
            }
            for v in &vs {
                println!("  violation {} {}: {}", v.class, v.key, v.detail.chars().take(400).collect::<String>());
            }
            if vs.iter().any(|v| v.key == rf.violation_key) {
                println!("VIOLATION property={} replay={}", rf.property, path);
                1
            } else if !vs.is_empty() {
                println!("simc: a different violation was observed");
                println!("VIOLATION property={} replay={}", rf.property, path);
                1
            } else {
                println!("simc: no violation on this tree");
                0
            }
        }
        Err((status, diag)) => {
            if status == "harness" {
                eprintln!("HARNESS: {}", diag);
                return 2;
            }
            println!("  worker process died: {} {}", status, diag.lines().last().unwrap_or(""));
            println!("VIOLATION property={} replay={}", rf.property, path);
            1
        }
    }
}

/// Debug aid: compile one file canonically in a worker and print what was observed.
pub fn one(file: &str, args: &[String]) -> i32 {
    let src = match std::fs::read(file) {
        Ok(s) => s,
        Err(e) => {
            eprintln!("{}", e);
            return 2;
        }
    };
    let a: Vec<String> = if args.is_empty() { vec!["-O1".into()] } else { args.to_vec() };
    let j = JobSpec::plain(file, &src, &[], &a);
    for prop in ["C16", "C05"] {
        match run_worlds_fresh(prop, &[World::solo(prop, j.clone())], 60) {
            Ok((vs, r)) => {
                for o in &r.outcomes {
                    println!("{}", o);
                }
                for v in vs {
                    println!("{} violation {}: {}", prop, v.key, v.detail);
                }
            }
            Err((s, d)) => println!("worker died: {} {}", s, d),
        }
    }
    0
}

/// Debug aid: run a seed range and print every raw message.
pub fn dbg(prop: &str, from: u64, to: u64) -> i32 {
    let seed = verif_seed();
    let base = mix(seed, if prop == "C05" { 0xC05 } else { 0xC16 });
    let rx = run_pool(n_workers().min(((to - from) as usize).max(1)), batches(prop, base, from, to, 8, true));
    for m in rx {
        match m {
            Msg::R(_, r) => println!("R worlds={:?} violations={:?} suppressed={:?}", r.stats.get("worlds"), r.stats.get("violations"), r.suppressed),
            Msg::Tags(..) => {}
            Msg::D(..) => {}
            Msg::V(_, v) => println!("V {} {} | {} | {}", v.tag, v.key, v.job_label, v.detail.chars().take(200).collect::<String>()),
            Msg::Died { tag, status, diag, .. } => println!("DIED {} {} | {}", tag, status, diag.lines().last().unwrap_or("")),
            Msg::Broken(e) => println!("BROKEN {}", e),
        }
    }
    0
}

/// Debug aid: print the world a tag denotes as a replay file.
pub fn dump(prop: &str, tag: &str) -> i32 {
    let root = verif_root();
    let corpus = load_corpus(&root).unwrap();
    let base = mix(verif_seed(), if prop == "C05" { 0xC05 } else { 0xC16 });
    match world_of_tag(prop, base, tag, &corpus) {
        Some(w) => {
            let rf = ReplayFile { property: prop.into(), violation_class: "?".into(), violation_key: "?".into(), detail: tag.into(), cargo_features: features().into(), worlds: vec![w], recorded: Vec::new() };
            println!("{}", serde_json::to_string_pretty(&rf).unwrap());
            0
        }
        None => 2,
    }
}
