//! Damage a simulated producer / transport can do to the input text before `compile` sees it.

use serde::{Deserialize, Serialize};

#[derive(Clone, Debug, Serialize, Deserialize, PartialEq)]
pub enum SrcFault {
    /// producer crashed: only the first k bytes arrive
    Eof(usize),
    /// prefix of k bytes followed by a torn block: 0 = sixteen 0x00, 1 = sixteen 0xFF, 2 = stale text (the file's own first 16 bytes)
    TornTail(usize, u8),
    /// bytes [i, j) never arrive
    Lost(usize, usize),
    /// bytes [i, j) arrive n extra times (retransmission stutter)
    Dup(usize, usize, u32),
    /// adjacent blocks [i, j) and [j, k) arrive in the wrong order
    Swap(usize, usize, usize),
    BitFlip(usize, u8),
    ByteSubst(usize, u8),
    /// text-mode transport: every LF becomes CR LF
    Crlf,
    /// token [i, j) retyped as another token
    TokenSubst(usize, usize, String),
    /// spurious token inserted at k
    Insert(usize, String),
    /// spurious text (whole lines) inserted at k
    InsertRaw(usize, String),
}

impl SrcFault {
    pub fn kind(&self) -> &'static str {
        match self {
            SrcFault::Eof(_) => "eof",
            SrcFault::TornTail(..) => "torn_tail",
            SrcFault::Lost(..) => "lost_block",
            SrcFault::Dup(_, _, n) if *n > 1 => "dup_stutter",
            SrcFault::Dup(..) => "dup_block",
            SrcFault::Swap(..) => "reorder",
            SrcFault::BitFlip(..) => "bit_flip",
            SrcFault::ByteSubst(..) => "byte_subst",
            SrcFault::Crlf => "crlf",
            SrcFault::TokenSubst(..) => "token_subst",
            SrcFault::Insert(..) => "token_insert",
            SrcFault::InsertRaw(..) => "line_insert",
        }
    }
    pub fn apply(&self, src: &[u8]) -> Vec<u8> {
        let n = src.len();
        let c = |x: usize| x.min(n);
        match self {
            SrcFault::Eof(k) => src[..c(*k)].to_vec(),
            SrcFault::TornTail(k, fill) => {
                let mut v = src[..c(*k)].to_vec();
                match fill {
                    0 => v.extend_from_slice(&[0u8; 16]),
                    1 => v.extend_from_slice(&[0xffu8; 16]),
                    _ => v.extend_from_slice(&src[..c(16)]),
                }
                v
            }
            SrcFault::Lost(i, j) => {
                let (i, j) = (c(*i), c(*j).max(c(*i)));
                let mut v = src[..i].to_vec();
                v.extend_from_slice(&src[j..]);
                v
            }
            SrcFault::Dup(i, j, cnt) => {
                let (i, j) = (c(*i), c(*j).max(c(*i)));
                let mut v = src[..j].to_vec();
                for _ in 0..*cnt {
                    v.extend_from_slice(&src[i..j]);
                }
                v.extend_from_slice(&src[j..]);
                v
            }
            SrcFault::Swap(i, j, k) => {
                let i = c(*i);
                let j = c(*j).max(i);
                let k = c(*k).max(j);
                let mut v = src[..i].to_vec();
                v.extend_from_slice(&src[j..k]);
                v.extend_from_slice(&src[i..j]);
                v.extend_from_slice(&src[k..]);
                v
            }
            SrcFault::BitFlip(k, b) => {
                let mut v = src.to_vec();
                if *k < n {
                    v[*k] ^= 1 << (b & 7);
                }
                v
            }
            SrcFault::ByteSubst(k, b) => {
                let mut v = src.to_vec();
                if *k < n {
                    v[*k] = *b;
                }
                v
            }
            SrcFault::Crlf => {
                let mut v = Vec::with_capacity(n + n / 16);
                for (idx, &b) in src.iter().enumerate() {
                    if b == b'\n' && (idx == 0 || src[idx - 1] != b'\r') {
                        v.push(b'\r');
                    }
                    v.push(b);
                }
                v
            }
            SrcFault::TokenSubst(i, j, s) => {
                let (i, j) = (c(*i), c(*j).max(c(*i)));
                let mut v = src[..i].to_vec();
                v.extend_from_slice(s.as_bytes());
                v.extend_from_slice(&src[j..]);
                v
            }
            SrcFault::Insert(k, s) => {
                let k = c(*k);
                let mut v = src[..k].to_vec();
                v.extend_from_slice(s.as_bytes());
                v.push(b' ');
                v.extend_from_slice(&src[k..]);
                v
            }
            SrcFault::InsertRaw(k, s) => {
                let k = c(*k);
                let mut v = src[..k].to_vec();
                v.extend_from_slice(s.as_bytes());
                v.extend_from_slice(&src[k..]);
                v
            }
        }
    }
    pub fn describe(&self) -> String {
        format!("{:?}", self)
    }
}

/// Bytes most likely to confuse a scanner that treats them specially.
pub const HOSTILE: [u8; 26] = [
    0x00, 0xff, b'@', b'"', b'\'', b'\\', b'#', b'/', b'*', b'{', b'}', b'(', b')', b';', b'\n', b'\r', b'0', b'9', b' ',
    b'[', b']', b',', b'=', b'-', b'&', b':',
];

/// Tokens used for `TokenSubst` / `Insert`: every keyword and operator of the grammar plus boundary literals.
pub const DICT: [&str; 134] = [
    "void", "char", "short", "int", "signed", "unsigned", "const", "inline", "interrupt", "bank1", "bank9", "superchip",
    "ramchip", "display", "aligned(256)", "reversed", "scattered(16,1)", "holeydma", "screencode", "nopagecross",
    "if", "else", "for", "while", "do", "switch", "case", "default", "break", "continue", "return", "goto", "asm",
    "strobe", "load", "store", "csleep", "sizeof", "X", "Y", "main", "0", "1", "255", "256", "-1", "65535", "65536",
    "99999999999", "0x", "0xffffffffff", "0777", "08", "'a'", "'\\n'", "''", "\"s\"", "\"\"", "(", ")", "{", "}", "[", "]",
    ";", ",", "=", "==", "+", "-", "*", "/", "<<", ">>", "<", ">=", "&", "&&", "|", "!", "~", "?", ":", "++", "+=", "#define",
    // misplaced statements and operands (near-valid programs: statement in the wrong place, undeclared or
    // prototype-only names, void value used, wrong arity)
    "break;", "continue;", "return;", "return 1;", "goto nolabel;", "nolabel:", "case 1:", "default:", "undeclared_name",
    "undeclared_fn()", "main()", "X = main();", ", 0", "[0]", "[Y]", "void proto_only();", "proto_only();", "if (X)",
    // large but representable sizes / values
    "2000000000", "0x7fffffff", "-2147483648", "1000000",
    // hostile literals: escapes without digits / out of range, empty and multi-character constants, a forged
    // string-literal marker, an over-long bank number
    "\"\\x\"", "\"\\x100\"", "\"\\q\\\"", "'\\x'", "'ab'", "\"\\\\\"", "@5@", "@99999999999@", "bank99999999999", "bank0",    // quotes and multi-byte characters inside literals and outside; extremes of the constant evaluator; names of
    // the wrong kind (a function where a value is wanted, an inline function that is only declared)
    "'\"'", "'\\\"'", "'\u{e9}'", "\"h\u{e9}\u{65e5}\"", "\u{e9}", "(-2147483647 - 1)", "/ -1", "2147483647", "proto_only",
    "inline void proto_only();", "if (X) continue;", "strobe(main);", "X = main;",
    // bank numbers: other banks (huge ones belong to the bank_boundary kind: under the 3E schemes each of them is a
    // ten-second hang of the reference builder, a known finding)
    "bank2", "bank3", "bank255",
];

#[derive(Clone, Copy, Debug, PartialEq, Eq)]
pub struct Span(pub usize, pub usize);

/// A forgiving C-ish lexer: identifiers/numbers, string and character literals, 1-3 byte operators.
pub fn tokens(src: &[u8]) -> Vec<Span> {
    let mut v = Vec::new();
    let n = src.len();
    let mut i = 0;
    while i < n {
        let b = src[i];
        if b.is_ascii_whitespace() {
            i += 1;
            continue;
        }
        let start = i;
        if b.is_ascii_alphanumeric() || b == b'_' {
            while i < n && (src[i].is_ascii_alphanumeric() || src[i] == b'_') {
                i += 1;
            }
        } else if b == b'"' || b == b'\'' {
            i += 1;
            while i < n && src[i] != b && src[i] != b'\n' {
                if src[i] == b'\\' {
                    i += 1;
                }
                i += 1;
            }
            i = (i + 1).min(n);
        } else {
            let three = &src[i..(i + 3).min(n)];
            let two = &src[i..(i + 2).min(n)];
            if three == b"<<=" || three == b">>=" {
                i += 3;
            } else if [&b"=="[..], b"!=", b"<=", b">=", b"&&", b"||", b"++", b"--", b"+=", b"-=", b"*=", b"/=", b"&=", b"|=", b"^=", b"<<", b">>", b"//", b"/*", b"*/", b"##"]
                .contains(&two)
            {
                i += 2;
            } else {
                i += 1;
            }
        }
        v.push(Span(start, i));
    }
    v
}

/// Line spans including the terminating newline.
pub fn lines(src: &[u8]) -> Vec<Span> {
    let mut v = Vec::new();
    let mut start = 0;
    for (i, &b) in src.iter().enumerate() {
        if b == b'\n' {
            v.push(Span(start, i + 1));
            start = i + 1;
        }
    }
    if start < src.len() {
        v.push(Span(start, src.len()));
    }
    v
}

pub fn sectors(src: &[u8]) -> Vec<Span> {
    (0..src.len()).step_by(16).map(|s| Span(s, (s + 16).min(src.len()))).collect()
}

pub const SINGLE_KINDS: [&str; 20] = [
    "eof", "torn_tail", "lost_token", "lost_line", "lost_sector", "dup_token", "dup_line", "swap_tokens", "swap_lines",
    "bit_flip", "byte_subst", "crlf", "token_subst", "token_insert", "own_subst", "line_insert", "splice_eol",
    "literal_boundary", "nest", "bank_boundary",
];

/// Wrappers an operand is nested in by the "nest" kind ({F} = a function name of the program), and the depths.
/// Valid or near-valid programs whose expressions nest 2..34 deep: the parser, the Pratt parser and the
/// generator recurse per level, and the generator evaluates 16-bit right-hand sides once per byte.
pub const NEST_WRAPPERS: [(&str, &str); 8] =
    [("(", ")"), ("(X, ", ")"), ("!(", ")"), ("-(", ")"), ("~(", ")"), ("(1 ? ", " : 2)"), ("{F}(", ")"), ("(Y = ", ")")];
pub const NEST_DEPTHS: [usize; 5] = [2, 6, 14, 24, 34];

/// first identifier of the program that is followed by "(" and is not a keyword: something callable
pub fn callable_name(src: &[u8]) -> Option<String> {
    const KEYWORDS: [&str; 16] =
        ["if", "while", "for", "switch", "sizeof", "asm", "strobe", "load", "store", "csleep", "return", "aligned", "scattered", "do", "else", "main"];
    let t = tokens(src);
    for w in t.windows(2) {
        let a = &src[w[0].0..w[0].1];
        if &src[w[1].0..w[1].1] == b"(" && a.first().map(|c| c.is_ascii_alphabetic() || *c == b'_').unwrap_or(false) {
            let name = String::from_utf8_lossy(a).to_string();
            if !KEYWORDS.contains(&name.as_str()) {
                return Some(name);
            }
        }
    }
    None
}

/// Bank numbers a `bankN` token is retyped as (limits of the bankswitching schemes, of a byte, of 16 and 32 bits);
/// the enumeration pairs each with every scheme of the reference builder (see gen::c16_enum_world).
pub const BANKS: [&str; 12] =
    ["bank0", "bank1", "bank2", "bank7", "bank8", "bank9", "bank255", "bank256", "bank257", "bank65536", "bank65537", "bank4294967295"];
pub const BANK_SCHEMES: usize = 5;

/// spans of the `bank<digits>` tokens of a program
pub fn bank_tokens(src: &[u8]) -> Vec<Span> {
    tokens(src)
        .into_iter()
        .filter(|t| {
            let w = &src[t.0..t.1];
            w.len() > 4 && w.starts_with(b"bank") && w[4..].iter().all(|c| c.is_ascii_digit())
        })
        .collect()
}

/// Values an integer literal is retyped as (range boundaries of char, short, i32 and beyond).
pub const BOUNDARY: [&str; 16] = [
    "0", "1", "-1", "127", "128", "255", "256", "32768", "65535", "65536", "2000000000", "0x7fffffff", "-2147483648", "99999999999",
    "(-2147483647 - 1) / -1", "(-2147483647 - 1)",
];

/// spans of the integer-literal tokens of a program
pub fn int_tokens(src: &[u8]) -> Vec<Span> {
    tokens(src).into_iter().filter(|t| src[t.0].is_ascii_digit()).collect()
}

/// positions where a line ends (before each LF, and the end of a text that lacks a final LF)
pub fn line_ends(src: &[u8]) -> Vec<usize> {
    let mut v: Vec<usize> = src.iter().enumerate().filter(|(_, b)| **b == b'\n').map(|(i, _)| i).collect();
    if !src.ends_with(b"\n") {
        v.push(src.len());
    }
    v
}

/// Whole lines a confused producer may splice in at a line boundary: unbalanced or operand-less
/// directives, comment and string openers/closers.
pub const LINES: [&str; 29] = [
    "#endif", "#else", "#elif 1", "#elif", "#if", "#if 0", "#if 1", "#ifdef", "#ifndef X", "#define", "#define X X", "#undef",
    "#undef X", "#include", "#include \"nofile.h\"", "#include <", "#error", "#error stop", "#", "/*", "*/", "\"", "\\",
    // ordinary-looking lines: quote characters compared on one line, non-ASCII text
    "if (X == '\"' || X == '\\\"') X = 0;", "X = '\u{e9}' + '\u{e8}' + '\u{e0}' + '\u{f9}' + '\u{e7}' + '\u{e9}' + '\u{e8}' + '\u{e0}' + '\u{f9}' + '\u{e7}' + '\u{e9}' + '\u{e8}';",
    // the bankswitching schemes of the reference builder
    "#define __3E__", "#define __3E_PLUS__", "#define __DPC__", "#define __DPCPLUS__",
];

/// distinct token texts of a program, in order of first appearance
pub fn own_vocabulary(src: &[u8]) -> Vec<Vec<u8>> {
    let mut v: Vec<Vec<u8>> = Vec::new();
    for t in tokens(src) {
        let w = &src[t.0..t.1];
        if !v.iter().any(|x| x == w) {
            v.push(w.to_vec());
        }
    }
    v
}

/// Size of the single-fault space of `kind` for `src`.
pub fn space(kind: &str, src: &[u8]) -> usize {
    let l = src.len();
    let t = tokens(src).len();
    let n = lines(src).len();
    match kind {
        "eof" => l,
        "torn_tail" => l * 3,
        "lost_token" | "dup_token" => t,
        "lost_line" | "dup_line" => n,
        "lost_sector" => sectors(src).len(),
        "swap_tokens" => t.saturating_sub(1),
        "swap_lines" => n.saturating_sub(1),
        "bit_flip" => l * 8,
        "byte_subst" => l * HOSTILE.len(),
        "crlf" => 1,
        "token_subst" => t * DICT.len(),
        "token_insert" => (t + 1) * DICT.len(),
        "own_subst" => t * own_vocabulary(src).len(),
        "line_insert" => (n + 1) * LINES.len(),
        "splice_eol" => line_ends(src).len(),
        "literal_boundary" => int_tokens(src).len() * BOUNDARY.len(),
        "nest" => int_tokens(src).len() * NEST_WRAPPERS.len() * NEST_DEPTHS.len(),
        "bank_boundary" => bank_tokens(src).len() * BANKS.len() * BANK_SCHEMES,
        _ => 0,
    }
}

/// The idx-th single fault of `kind` (idx < space(kind, src)).
pub fn nth(kind: &str, src: &[u8], idx: usize) -> SrcFault {
    match kind {
        "eof" => SrcFault::Eof(idx),
        "torn_tail" => SrcFault::TornTail(idx / 3, (idx % 3) as u8),
        "lost_token" => {
            let s = tokens(src)[idx];
            SrcFault::Lost(s.0, s.1)
        }
        "dup_token" => {
            let s = tokens(src)[idx];
            SrcFault::Dup(s.0, s.1, 1)
        }
        "lost_line" => {
            let s = lines(src)[idx];
            SrcFault::Lost(s.0, s.1)
        }
        "dup_line" => {
            let s = lines(src)[idx];
            SrcFault::Dup(s.0, s.1, 1)
        }
        "lost_sector" => {
            let s = sectors(src)[idx];
            SrcFault::Lost(s.0, s.1)
        }
        "swap_tokens" => {
            let t = tokens(src);
            SrcFault::Swap(t[idx].0, t[idx + 1].0, t[idx + 1].1)
        }
        "swap_lines" => {
            let t = lines(src);
            SrcFault::Swap(t[idx].0, t[idx + 1].0, t[idx + 1].1)
        }
        "bit_flip" => SrcFault::BitFlip(idx / 8, (idx % 8) as u8),
        "byte_subst" => SrcFault::ByteSubst(idx / HOSTILE.len(), HOSTILE[idx % HOSTILE.len()]),
        "crlf" => SrcFault::Crlf,
        "token_subst" => {
            let s = tokens(src)[idx / DICT.len()];
            SrcFault::TokenSubst(s.0, s.1, DICT[idx % DICT.len()].to_string())
        }
        "own_subst" => {
            // token retyped as another token of the same program (a name or operator that exists there)
            let voc = own_vocabulary(src);
            let s = tokens(src)[idx / voc.len()];
            SrcFault::TokenSubst(s.0, s.1, String::from_utf8_lossy(&voc[idx % voc.len()]).to_string())
        }
        "splice_eol" => {
            // a backslash appears just before a line end: the line is spliced with the next one
            // (or with nothing, at the end of the text)
            let e = line_ends(src)[idx];
            if e == src.len() {
                SrcFault::InsertRaw(e, "\\\n".to_string())
            } else {
                SrcFault::InsertRaw(e, "\\".to_string())
            }
        }
        "bank_boundary" => {
            let per = BANKS.len() * BANK_SCHEMES;
            let t = bank_tokens(src)[idx / per];
            SrcFault::TokenSubst(t.0, t.1, BANKS[(idx % per) / BANK_SCHEMES].to_string())
        }
        "nest" => {
            let per = NEST_WRAPPERS.len() * NEST_DEPTHS.len();
            let t = int_tokens(src)[idx / per];
            let (pre, post) = NEST_WRAPPERS[(idx % per) / NEST_DEPTHS.len()];
            let depth = NEST_DEPTHS[idx % NEST_DEPTHS.len()];
            let f = callable_name(src).unwrap_or_else(|| "main".to_string());
            let pre = pre.replace("{F}", &f);
            let tok = String::from_utf8_lossy(&src[t.0..t.1]).to_string();
            SrcFault::TokenSubst(t.0, t.1, format!("{}{}{}", pre.repeat(depth), tok, post.repeat(depth)))
        }
        "literal_boundary" => {
            let t = int_tokens(src)[idx / BOUNDARY.len()];
            SrcFault::TokenSubst(t.0, t.1, BOUNDARY[idx % BOUNDARY.len()].to_string())
        }
        "line_insert" => {
            let l = lines(src);
            let k = idx / LINES.len();
            let pos = if k < l.len() { l[k].0 } else { src.len() };
            let nl = if pos == src.len() && !src.ends_with(b"\n") && !src.is_empty() { "\n" } else { "" };
            SrcFault::InsertRaw(pos, format!("{}{}\n", nl, LINES[idx % LINES.len()]))
        }
        "token_insert" => {
            let t = tokens(src);
            let k = idx / DICT.len();
            let pos = if k < t.len() { t[k].0 } else { src.len() };
            SrcFault::Insert(pos, DICT[idx % DICT.len()].to_string())
        }
        _ => SrcFault::Crlf,
    }
}
