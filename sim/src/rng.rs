//! SplitMix64: the single source of every random decision in the simulator.

#[derive(Clone, Debug)]
pub struct Rng(pub u64);

impl Rng {
    pub fn new(seed: u64) -> Rng {
        Rng(seed)
    }
    #[inline]
    pub fn next_u64(&mut self) -> u64 {
        self.0 = self.0.wrapping_add(0x9E37_79B9_7F4A_7C15);
        let mut z = self.0;
        z = (z ^ (z >> 30)).wrapping_mul(0xBF58_476D_1CE4_E5B9);
        z = (z ^ (z >> 27)).wrapping_mul(0x94D0_49BB_1331_11EB);
        z ^ (z >> 31)
    }
    /// uniform in 0..n (n > 0)
    #[inline]
    pub fn below(&mut self, n: u64) -> u64 {
        debug_assert!(n > 0);
        // multiply-shift; bias is irrelevant for n << 2^64
        ((self.next_u64() as u128 * n as u128) >> 64) as u64
    }
    #[inline]
    pub fn usize_below(&mut self, n: usize) -> usize {
        self.below(n as u64) as usize
    }
    /// inclusive range
    pub fn range(&mut self, lo: u64, hi: u64) -> u64 {
        lo + self.below(hi - lo + 1)
    }
    #[inline]
    pub fn chance(&mut self, num: u64, den: u64) -> bool {
        self.below(den) < num
    }
    pub fn pick<'a, T>(&mut self, xs: &'a [T]) -> &'a T {
        &xs[self.usize_below(xs.len())]
    }
    /// derive an independent stream
    pub fn fork(&mut self, label: u64) -> Rng {
        let a = self.next_u64();
        Rng(mix(a, label))
    }
    pub fn bytes16(&mut self) -> [u8; 16] {
        let a = self.next_u64().to_le_bytes();
        let b = self.next_u64().to_le_bytes();
        let mut k = [0u8; 16];
        k[..8].copy_from_slice(&a);
        k[8..].copy_from_slice(&b);
        k
    }
}

pub fn mix(a: u64, b: u64) -> u64 {
    let mut r = Rng(a ^ b.wrapping_mul(0xD6E8_FEB8_6659_FD93));
    r.next_u64()
}

/// FNV-1a 64 — stable content hash used for digests and dedup (never std's RandomState).
#[derive(Clone, Copy)]
pub struct Fnv(pub u64);
impl Fnv {
    pub fn new() -> Fnv {
        Fnv(0xcbf2_9ce4_8422_2325)
    }
    #[inline]
    pub fn write(&mut self, bytes: &[u8]) {
        for b in bytes {
            self.0 ^= *b as u64;
            self.0 = self.0.wrapping_mul(0x0000_0100_0000_01B3);
        }
    }
    pub fn write_u64(&mut self, v: u64) {
        self.write(&v.to_le_bytes());
    }
    pub fn write_str(&mut self, s: &str) {
        self.write(s.as_bytes());
        self.write(&[0xff]);
    }
    pub fn finish(&self) -> u64 {
        // final avalanche so that short inputs spread over all bits
        mix(self.0, 0x51_7c_c1_b7_27_22_0a_95)
    }
}
pub fn hash_bytes(b: &[u8]) -> u64 {
    let mut h = Fnv::new();
    h.write(b);
    h.finish()
}
