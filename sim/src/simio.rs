//! The simulated input stream and output sink handed to `compile`.

use crate::rng::Rng;
use serde::{Deserialize, Serialize};
use std::io::{self, BufRead, ErrorKind, Read, Write};

#[derive(Clone, Debug, Serialize, Deserialize, PartialEq)]
pub enum ChunkSpec {
    /// everything that is available / offered, in one call
    Whole,
    Fixed(u32),
    /// 1..=cap bytes per call, drawn from `seed`
    Seeded { seed: u64, cap: u32 },
    /// recorded sizes; after the list is exhausted behaves as `Whole`
    Explicit(Vec<u32>),
}

#[derive(Clone, Debug, Serialize, Deserialize, PartialEq)]
pub enum EintrSpec {
    Never,
    /// a call fails with `Interrupted` with probability 1/den, never twice in a row
    Seeded { seed: u64, den: u32 },
    /// call numbers (0-based, counting every fill_buf / write call) that fail with `Interrupted`
    Calls(Vec<u32>),
}

#[derive(Clone, Debug, Serialize, Deserialize, PartialEq)]
pub struct StreamSpec {
    pub chunks: ChunkSpec,
    pub eintr: EintrSpec,
    /// hard I/O error once this many bytes have been delivered / accepted
    pub error_at: Option<u64>,
    /// shape of that error: 0 = `io::Error::new(Other, "text")` (custom payload), 1 = kind only
    /// (`BrokenPipe` / `UnexpectedEof`, no payload), 2 = raw OS error (ENOSPC / EIO), 3 = the sink accepts
    /// zero bytes (`Ok(0)`; a reader reports end of file instead)
    #[serde(default)]
    pub error_flavor: u8,
}

/// Payload of the unwind a stream of flavour 4 starts instead of returning an error: the caller's reader or sink
/// panics (a bug or a cancellation in the embedding application), and the compilation is unwound from wherever it
/// happened to read or write. What the thread compiles next must not notice.
pub struct InjectedUnwind;

fn hard_error(flavor: u8, write: bool) -> io::Error {
    match flavor {
        1 => (if write { ErrorKind::BrokenPipe } else { ErrorKind::UnexpectedEof }).into(),
        2 => io::Error::from_raw_os_error(if write { 28 } else { 5 }),
        _ => io::Error::new(ErrorKind::Other, if write { "simulated write error" } else { "simulated read error" }),
    }
}

impl StreamSpec {
    pub fn canonical() -> StreamSpec {
        StreamSpec { chunks: ChunkSpec::Whole, eintr: EintrSpec::Never, error_at: None, error_flavor: 0 }
    }
    pub fn is_canonical(&self) -> bool {
        *self == StreamSpec::canonical()
    }
    pub fn benign(&self) -> bool {
        self.error_at.is_none()
    }
}

struct Chunker {
    spec: ChunkSpec,
    rng: Rng,
    idx: usize,
}
impl Chunker {
    fn new(spec: &ChunkSpec) -> Chunker {
        let seed = if let ChunkSpec::Seeded { seed, .. } = spec { *seed } else { 0 };
        Chunker { spec: spec.clone(), rng: Rng::new(seed), idx: 0 }
    }
    /// size of the next chunk given `avail` (>0) bytes; result in 1..=avail
    fn next(&mut self, avail: usize) -> usize {
        let n = match &self.spec {
            ChunkSpec::Whole => avail,
            ChunkSpec::Fixed(n) => (*n as usize).max(1),
            ChunkSpec::Seeded { cap, .. } => 1 + self.rng.usize_below((*cap as usize).max(1)),
            ChunkSpec::Explicit(v) => {
                let r = v.get(self.idx).map(|x| (*x as usize).max(1)).unwrap_or(avail);
                self.idx += 1;
                r
            }
        };
        n.min(avail)
    }
}

struct Interrupter {
    spec: EintrSpec,
    rng: Rng,
    call: u32,
    last_was_eintr: bool,
}
impl Interrupter {
    fn new(spec: &EintrSpec) -> Interrupter {
        let seed = if let EintrSpec::Seeded { seed, .. } = spec { *seed } else { 0 };
        Interrupter { spec: spec.clone(), rng: Rng::new(seed), call: 0, last_was_eintr: false }
    }
    /// returns true when this call must fail with Interrupted
    fn fire(&mut self) -> bool {
        let c = self.call;
        self.call += 1;
        let f = match &self.spec {
            EintrSpec::Never => false,
            EintrSpec::Seeded { den, .. } => {
                !self.last_was_eintr && self.rng.chance(1, (*den as u64).max(2))
            }
            EintrSpec::Calls(v) => v.contains(&c),
        };
        self.last_was_eintr = f;
        f
    }
}

#[derive(Clone, Debug, Default)]
pub struct IoLog {
    pub calls: u32,
    pub chunks: Vec<u32>,
    pub eintr_calls: Vec<u32>,
    pub bytes: u64,
    pub error_fired: bool,
    pub split_utf8: u32,
    pub split_crlf: u32,
    pub split_splice: u32,
    pub short: u32,
}

pub struct SimReader {
    data: Vec<u8>,
    pos: usize,
    chunk_end: usize,
    chunker: Chunker,
    intr: Interrupter,
    error_at: Option<u64>,
    flavor: u8,
    pub log: std::rc::Rc<std::cell::RefCell<IoLog>>,
}

impl SimReader {
    pub fn new(data: Vec<u8>, spec: &StreamSpec) -> SimReader {
        SimReader {
            data,
            pos: 0,
            chunk_end: 0,
            chunker: Chunker::new(&spec.chunks),
            intr: Interrupter::new(&spec.eintr),
            error_at: spec.error_at,
            flavor: spec.error_flavor,
            log: Default::default(),
        }
    }
}

impl BufRead for SimReader {
    fn fill_buf(&mut self) -> io::Result<&[u8]> {
        crate::job::io_point("input.read");
        let callno = {
            let mut l = self.log.borrow_mut();
            l.calls += 1;
            l.calls - 1
        };
        if self.intr.fire() {
            self.log.borrow_mut().eintr_calls.push(callno);
            return Err(io::Error::new(ErrorKind::Interrupted, "simulated EINTR (read)"));
        }
        if let Some(k) = self.error_at {
            if self.pos as u64 >= k && self.pos == self.chunk_end {
                self.log.borrow_mut().error_fired = true;
                if self.flavor == 3 {
                    // the stream simply ends here
                    return Ok(&[]);
                }
                if self.flavor == 4 {
                    std::panic::resume_unwind(Box::new(InjectedUnwind));
                }
                return Err(hard_error(self.flavor, false));
            }
        }
        if self.pos == self.chunk_end && self.pos < self.data.len() {
            let mut avail = self.data.len() - self.pos;
            if let Some(k) = self.error_at {
                // never deliver past the error position
                avail = avail.min((k as usize).saturating_sub(self.pos)).max(1);
            }
            let n = self.chunker.next(avail);
            self.chunk_end = self.pos + n;
            let mut l = self.log.borrow_mut();
            l.chunks.push(n as u32);
            if self.chunk_end < self.data.len() {
                l.short += 1;
                let e = self.chunk_end;
                if self.data[e] & 0xC0 == 0x80 {
                    l.split_utf8 += 1;
                }
                if self.data[e] == b'\n' && self.data[e - 1] == b'\r' {
                    l.split_crlf += 1;
                }
                if self.data[e - 1] == b'\\' && (self.data[e] == b'\n' || self.data[e] == b'\r') {
                    l.split_splice += 1;
                }
            }
        }
        Ok(&self.data[self.pos..self.chunk_end])
    }
    fn consume(&mut self, amt: usize) {
        let amt = amt.min(self.chunk_end - self.pos);
        self.pos += amt;
        self.log.borrow_mut().bytes += amt as u64;
    }
}

impl Read for SimReader {
    fn read(&mut self, buf: &mut [u8]) -> io::Result<usize> {
        let n = {
            let b = self.fill_buf()?;
            let n = b.len().min(buf.len());
            buf[..n].copy_from_slice(&b[..n]);
            n
        };
        self.consume(n);
        Ok(n)
    }
}

pub const SINK_KEEP: usize = 64 << 20;
/// entries kept in the per-call logs of the sink (a job may make billions of calls)
pub const LOG_KEEP: usize = 1 << 20;

pub struct SimWriter {
    pub accepted: Vec<u8>,
    pub overflow: crate::rng::Fnv,
    pub overflow_bytes: u64,
    chunker: Chunker,
    intr: Interrupter,
    error_at: Option<u64>,
    flavor: u8,
    pub log: IoLog,
    pub flushes: u32,
}

impl SimWriter {
    pub fn new(spec: &StreamSpec) -> SimWriter {
        SimWriter {
            overflow: crate::rng::Fnv::new(),
            overflow_bytes: 0,
            accepted: Vec::new(),
            chunker: Chunker::new(&spec.chunks),
            intr: Interrupter::new(&spec.eintr),
            error_at: spec.error_at,
            flavor: spec.error_flavor,
            log: IoLog::default(),
            flushes: 0,
        }
    }
}

impl Write for SimWriter {
    fn write(&mut self, buf: &[u8]) -> io::Result<usize> {
        crate::job::io_point("output.write");
        let callno = self.log.calls;
        self.log.calls += 1;
        if buf.is_empty() {
            return Ok(0);
        }
        if self.intr.fire() {
            if self.log.eintr_calls.len() < LOG_KEEP {
                self.log.eintr_calls.push(callno);
            }
            return Err(io::Error::new(ErrorKind::Interrupted, "simulated EINTR (write)"));
        }
        let mut avail = buf.len();
        if let Some(k) = self.error_at {
            let room = (k as usize).saturating_sub(self.accepted.len());
            if room == 0 {
                self.log.error_fired = true;
                if self.flavor == 3 {
                    // a full sink: accepts nothing (write_all turns this into WriteZero)
                    return Ok(0);
                }
                if self.flavor == 4 {
                    std::panic::resume_unwind(Box::new(InjectedUnwind));
                }
                return Err(hard_error(self.flavor, true));
            }
            avail = avail.min(room);
        }
        let n = self.chunker.next(avail);
        if n < buf.len() {
            self.log.short += 1;
        }
        if self.log.chunks.len() < LOG_KEEP {
            self.log.chunks.push(n as u32);
        }
        self.log.bytes += n as u64;
        // a real sink does not keep the output in memory: beyond 64 MiB only a digest of the rest is kept
        // (appended to the kept head when the job ends), so that a builder emitting without end is a hang
        // seen by the wall-clock backstop, not an allocation failure of the harness
        if self.accepted.len() + n <= SINK_KEEP {
            self.accepted.extend_from_slice(&buf[..n]);
        } else {
            self.overflow.write(&buf[..n]);
            self.overflow_bytes += n as u64;
        }
        Ok(n)
    }
    fn flush(&mut self) -> io::Result<()> {
        crate::job::io_point("output.write");
        self.flushes += 1;
        Ok(())
    }
}
