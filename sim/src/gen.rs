//! Seeded world generation: one integer decides programs, options, hash keys, thread placement,
//! delivery schedules, fault positions and the scheduling policy.

use crate::corpus::{soup, Program};
use crate::progen::{big, progen};
use crate::faults::{self, SrcFault};
use crate::rng::Rng;
use crate::sched::SchedSpec;
use crate::simio::{ChunkSpec, EintrSpec, StreamSpec};
use crate::world::{to_hex, Bytes, IncFile, IncKind, JobSpec, ThreadSpec, World};

pub const ZERO_KEY: &str = "00000000000000000000000000000000";

pub fn job_of(p: &Program) -> JobSpec {
    JobSpec::plain(&p.name, &p.source, &p.includes, &p.args)
}

/// Byte-at-a-time delivery of a 300 KB text (or of its megabyte of assembly) is hundreds of thousands
/// of scheduling points for nothing new: large jobs get coarse chunks.
fn coarsen(job: &mut JobSpec) {
    if job.source.0.len() > 32 * 1024 {
        for s in [&mut job.reader, &mut job.writer] {
            let seed = match s.chunks {
                ChunkSpec::Whole | ChunkSpec::Explicit(_) => continue,
                ChunkSpec::Fixed(n) => n as u64,
                ChunkSpec::Seeded { seed, .. } => seed,
            };
            s.chunks = ChunkSpec::Seeded { seed, cap: 16 * 1024 };
        }
    }
}

fn pick_program(r: &mut Rng, corpus: &[Program]) -> Program {
    if r.chance(1, 160) {
        return big(r.next_u64());
    }
    match r.below(4) {
        0 => soup(r.next_u64()),
        1 => progen(r.next_u64()),
        _ => corpus[r.usize_below(corpus.len())].clone(),
    }
}

/// Programs that end in Err / panic: history fillers ("regardless of what was compiled before").
const POISON: [&str; 6] = [
    "void main() { undeclared = 1; }",
    "char a; char a; void main() {}",
    "#if\nvoid main() {}",
    "void main() { csleep(3); }",
    "",
    "char *s; void main() { s = \"unterminated; }",
];

fn stream(r: &mut Rng, chunked: bool, eintr: bool) -> StreamSpec {
    let chunks = if chunked {
        match r.below(4) {
            0 => ChunkSpec::Fixed(1),
            1 => ChunkSpec::Fixed(1 + r.below(16) as u32),
            _ => ChunkSpec::Seeded { seed: r.next_u64(), cap: *r.pick(&[2u32, 7, 16, 64, 300]) },
        }
    } else {
        ChunkSpec::Whole
    };
    let eintr = if eintr { EintrSpec::Seeded { seed: r.next_u64(), den: *r.pick(&[2u32, 5, 20]) } } else { EintrSpec::Never };
    StreamSpec { chunks, eintr, error_at: None, error_flavor: 0 }
}

/// A variant of `job` that shares its names: 1-2 token-level changes (a token retyped as another
/// token of the same program, lost, duplicated, swapped, a line lost or duplicated).
pub fn sibling(r: &mut Rng, job: &JobSpec) -> JobSpec {
    const KINDS: [&str; 8] = ["own_subst", "own_subst", "own_subst", "lost_token", "dup_token", "swap_tokens", "lost_line", "token_subst"];
    // a program with include files: half of the time the variant differs in one included file instead
    // (same file names, other content - what a cache keyed by file name would confuse)
    let inc_files: Vec<usize> = (0..job.includes.len()).filter(|i| matches!(job.includes[*i].kind, IncKind::File(_))).collect();
    if !inc_files.is_empty() && r.chance(1, 2) {
        let fi = *r.pick(&inc_files);
        let mut j = job.clone();
        if let IncKind::File(b) = &job.includes[fi].kind {
            let mut content = b.0.clone();
            let kind = *r.pick(&KINDS);
            let sp = faults::space(kind, &content);
            if sp > 0 {
                content = faults::nth(kind, &content, r.usize_below(sp)).apply(&content);
            }
            j.includes[fi].kind = IncKind::File(Bytes(content));
        }
        j.label = format!("sibling of {} (include file {} varied)", job.label, job.includes[fi].path);
        j.reader = StreamSpec::canonical();
        j.writer = StreamSpec::canonical();
        return j;
    }
    let mut src = job.source.0.clone();
    let n = 1 + r.usize_below(2);
    let mut desc = Vec::new();
    for _ in 0..n {
        let kind = *r.pick(&KINDS);
        let sp = faults::space(kind, &src);
        if sp > 0 {
            let f = faults::nth(kind, &src, r.usize_below(sp));
            src = f.apply(&src);
            desc.push(f.kind());
        }
    }
    let mut j = job.clone();
    j.source = Bytes(src);
    j.label = format!("sibling of {} {:?}", job.label, desc);
    j.reader = StreamSpec::canonical();
    j.writer = StreamSpec::canonical();
    j
}

#[derive(Clone, Copy, Debug, Default)]
pub struct Dims {
    pub keys: bool,
    pub history: bool,
    pub interleave: bool,
    pub rdeliv: bool,
    pub wdeliv: bool,
    pub hard: bool,
}

/// C05 world from a seed (swarm configuration: a random subset of the dimensions is enabled).
pub fn c05_world(seed: u64, corpus: &[Program]) -> (World, Dims) {
    let mut r = Rng::new(seed);
    let mut d = Dims {
        keys: r.chance(2, 3),
        history: r.chance(1, 2),
        interleave: r.chance(1, 3),
        rdeliv: r.chance(1, 4),
        wdeliv: r.chance(1, 4),
        hard: r.chance(1, 10),
    };
    if !(d.keys || d.history || d.interleave || d.rdeliv || d.wdeliv || d.hard) {
        d.keys = true;
    }
    let nthreads = if d.interleave { 2 + r.usize_below(2) } else { 1 + r.usize_below(2) };
    let njobs = if d.history || d.interleave { (nthreads + r.usize_below(4)).max(2) } else { nthreads };
    // big-victim mode: a large program read in pieces while small ones start and finish around it
    let big_victim = r.chance(1, 400);
    if big_victim {
        d.interleave = true;
        d.rdeliv = true;
    }
    let nthreads = if big_victim { nthreads.max(2) } else { nthreads };
    let njobs = if big_victim { njobs.max(nthreads + 1) } else { njobs };
    let focus = if big_victim { big(r.next_u64()) } else { pick_program(&mut r, corpus) };
    let mut jobs: Vec<JobSpec> = Vec::new();
    for j in 0..njobs {
        let p = if j == 0 || r.chance(1, 3) {
            focus.clone()
        } else if d.history && r.chance(1, 4) {
            Program { name: "poison".into(), source: r.pick(&POISON).as_bytes().to_vec(), args: vec!["-O1".into()], includes: vec![] }
        } else {
            pick_program(&mut r, corpus)
        };
        let mut job = job_of(&p);
        if !p.name.starts_with("soup/") && p.name != "poison" && r.chance(1, 4) {
            // the same source under another option vector is another request, with its own reference
            job.args = option_vector(r.usize_below(OPTION_VECTORS), &p);
        }
        if d.rdeliv {
            let e = r.chance(1, 2);
            job.reader = stream(&mut r, true, e);
        }
        if d.wdeliv {
            let e = r.chance(1, 2);
            job.writer = stream(&mut r, true, e);
        }
        coarsen(&mut job);
        jobs.push(job);
    }
    // history made of siblings: the job that runs just before job k on its thread is a slightly
    // damaged variant of job k (same names, other meanings) - decided after placement, see below
    if d.hard {
        let j = r.usize_below(jobs.len());
        if r.chance(1, 2) {
            let n = jobs[j].source.0.len() as u64;
            jobs[j].reader.error_at = Some(r.below(n + 1));
            jobs[j].reader.error_flavor = if r.chance(1, 3) { 4 } else { r.below(4) as u8 };
        } else {
            jobs[j].writer.error_at = Some(r.below(2000));
            jobs[j].writer.error_flavor = if r.chance(1, 3) { 4 } else { r.below(4) as u8 };
        }
    }
    // placement: shuffle job indices over threads, every thread gets at least one
    let mut order: Vec<usize> = (0..njobs).collect();
    for i in (1..order.len()).rev() {
        let k = r.usize_below(i + 1);
        order.swap(i, k);
    }
    let mut threads: Vec<ThreadSpec> = (0..nthreads)
        .map(|_| ThreadSpec { hash_key: if d.keys { to_hex(&r.bytes16()) } else { ZERO_KEY.to_string() }, jobs: vec![] })
        .collect();
    for (i, j) in order.iter().enumerate() {
        let t = if i < nthreads { i } else { r.usize_below(nthreads) };
        threads[t].jobs.push(*j);
    }
    if d.history {
        for t in threads.iter() {
            for k in 1..t.jobs.len() {
                if r.chance(1, 2) {
                    let (prev, cur) = (t.jobs[k - 1], t.jobs[k]);
                    let sib = sibling(&mut r, &jobs[cur]);
                    jobs[prev] = sib;
                }
            }
        }
    }
    let sched = if d.interleave {
        match r.below(3) {
            0 => SchedSpec::Random { seed: r.next_u64(), den: *r.pick(&[2u32, 8, 64, 512]) },
            1 => SchedSpec::Pct { seed: r.next_u64(), depth: 1 + r.below(3) as u32, horizon: *r.pick(&[50u32, 500, 5000]) },
            _ => SchedSpec::Random { seed: r.next_u64(), den: 1 },
        }
    } else {
        SchedSpec::Sequential
    };
    // ambient verbosity of the process (RUST_LOG): mostly the default, sometimes Debug or Trace
    // the Debug/Trace records of a 300 KB program are hundreds of megabytes of formatted syntax trees: big jobs
    // stay at Info
    let any_big = jobs.iter().any(|j| j.source.0.len() > 32 * 1024);
    let log_level = if r.chance(1, 16) && !any_big { 4 + r.below(2) as u8 } else { 3 };
    // the user's shell: another locale, time zone, home, terminal, working directory, compiler-ish variables
    let env = if r.chance(1, 8) { 1 + r.below(crate::job::ENVIRONMENTS.len() as u64) as u8 } else { 0 };
    if env == 2 && r.chance(2, 3) {
        // the compiler-ish variables point at the include tree: requests that name no directory for their headers
        // must fail the same way as in the baseline environment
        for j in jobs.iter_mut().filter(|j| !j.includes.is_empty()) {
            let mut kept = Vec::new();
            let mut it = j.args.iter();
            while let Some(a) = it.next() {
                if a == "-I" {
                    it.next();
                } else {
                    kept.push(a.clone());
                }
            }
            j.args = kept;
        }
    }
    (World { prop: "C05".into(), seed, threads, jobs, sched, note: format!("{:?}", d), log_level, env, stdio: if log_level == 3 && r.chance(1, 20) { 1 + r.below(4) as u8 } else { 0 } }, d)
}

/// C05 directed pass: program `p` alone on a fresh thread with the k-th hash key derived from `base`.
pub fn c05_key_world(base: u64, pi: usize, k: u64, corpus: &[Program]) -> World {
    let mut r = Rng::new(crate::rng::mix(base ^ 0xC05, (pi as u64) << 20 | k));
    let mut w = World::solo("C05", job_of(&corpus[pi]));
    w.threads[0].hash_key = to_hex(&r.bytes16());
    w.seed = r.0;
    w.note = format!("directed: program {} under hash key #{}", pi, k);
    w
}

// ---------------------------------------------------------------- C16

pub fn damaged_job(p: &Program, faults: &[SrcFault]) -> JobSpec {
    let mut src = p.source.clone();
    let mut desc = Vec::new();
    for f in faults {
        src = f.apply(&src);
        desc.push(format!("source:{}", f.describe()));
    }
    let mut j = job_of(p);
    j.source = Bytes(src);
    j.faults = desc;
    j.label = format!("{} + {:?}", p.name, faults.iter().map(|f| f.kind()).collect::<Vec<_>>());
    j
}

/// Number of option vectors of the "options" enumeration: -O0..3 x --insert-code x -W all x --fsigned_char.
pub const OPTION_VECTORS: usize = 160;

pub fn option_vector(idx: usize, p: &Program) -> Vec<String> {
    let mut args = vec![format!("-O{}", idx % 4)];
    if idx & 4 != 0 {
        args.push("--insert-code".into());
    }
    if idx & 8 != 0 {
        args.push("-W".into());
        args.push("all".into());
    }
    if idx & 16 != 0 {
        args.push("--fsigned_char".into());
    }
    // the bankswitching scheme of the reference builder (vectors 32..159)
    match idx / 32 {
        1 => args.extend(["-D".to_string(), "__3E__".to_string()]),
        2 => args.extend(["-D".to_string(), "__3E_PLUS__".to_string()]),
        3 => args.extend(["-D".to_string(), "__DPC__".to_string()]),
        4 => args.extend(["-D".to_string(), "__DPCPLUS__".to_string()]),
        _ => {}
    }
    // keep the program's own -D / -I options
    let mut it = p.args.iter();
    while let Some(a) = it.next() {
        if a == "-D" || a == "-I" {
            args.push(a.clone());
            if let Some(v) = it.next() {
                args.push(v.clone());
            }
        }
    }
    args
}

pub fn c16_enum_world(corpus: &[Program], pi: usize, kind: &str, idx: usize) -> World {
    let p = &corpus[pi];
    if kind == "options" {
        let mut j = job_of(p);
        j.args = option_vector(idx, p);
        j.label = format!("{} options#{}", p.name, idx);
        let mut w = World::solo("C16", j);
        w.note = format!("enumerated option vector {} of program {}", idx, pi);
        return w;
    }
    if kind == "defines" {
        // a hostile -D option (or one of the program's own first identifiers defined as a line break) x
        // {program as is, its last token lost, an undeclared name before its last token}: configuration
        // faults meet an error on the last lines
        let nd = HOSTILE_DEFINES.len() + OWN_DEFINES;
        let (d, variant) = (idx % nd, idx / nd);
        let toks = faults::tokens(&p.source);
        let def = if d < HOSTILE_DEFINES.len() {
            HOSTILE_DEFINES[d].to_string()
        } else {
            let ids: Vec<String> = faults::own_vocabulary(&p.source)
                .into_iter()
                .filter(|t| t.first().map(|c| c.is_ascii_alphabetic() || *c == b'_').unwrap_or(false))
                .filter(|t| t.iter().all(|c| c.is_ascii_alphanumeric() || *c == b'_'))
                .map(|t| String::from_utf8_lossy(&t).to_string())
                .collect();
            if ids.is_empty() {
                "X=\n".to_string()
            } else {
                format!("{}=\n{}", ids[(d - HOSTILE_DEFINES.len()) * 7 % ids.len()], if d % 2 == 0 { "" } else { "1" })
            }
        };
        let fl: Vec<SrcFault> = match (variant, toks.last()) {
            (1, Some(t)) => vec![SrcFault::Lost(t.0, t.1)],
            (2, Some(t)) => vec![SrcFault::Insert(t.0, " undeclared_zz = 1; ".to_string())],
            _ => vec![],
        };
        let mut j = damaged_job(p, &fl);
        j.args = option_vector(pi % 32, p);
        j.args.push("-D".into());
        j.args.push(def);
        j.label = format!("{} define#{}", p.name, idx);
        let mut w = World::solo("C16", j);
        w.note = format!("enumerated hostile define {} variant {} of program {}", d, variant, pi);
        return w;
    }
    let f = faults::nth(kind, &p.source, idx);
    let mut w = World::solo("C16", damaged_job(p, &[f]));
    w.note = format!("enumerated single fault: program {} kind {} index {}", pi, kind, idx);
    if kind == "bank_boundary" {
        // each retyped bank number under each bankswitching scheme of the reference builder (and under none)
        w.jobs[0].args = option_vector(32 * (idx % faults::BANK_SCHEMES) + pi % 32, p);
        w.note.push_str(" (scheme option vector)");
    } else if idx % 3 == 2 {
        // every third fault of a kind meets a rotating option vector instead of the program's own options
        // (-O0..3 x --insert-code x -W all x --fsigned_char), so that option-only code paths see damaged input too
        w.jobs[0].args = option_vector((idx / 3 + pi) % OPTION_VECTORS, p);
        w.note.push_str(" (rotated option vector)");
    }
    w
}

/// number of "own identifier defined as a line break" options of the "defines" enumeration
pub const OWN_DEFINES: usize = 6;
/// size of the "defines" enumeration per program
pub const DEFINE_WORLDS: usize = (22 + OWN_DEFINES) * 3;

pub const HOSTILE_DEFINES: [&str; 22] = [
    "A=A", "=", "1X", "F(x)=x", "", "main", "char=short", "X=Y", "(", "A=B", "i=i+1", "void",
    // line breaks in a value (the shell passes them happily), names every program uses
    "X=\n", "char=\nchar", "void=void\r\n", "main=\n\nmain", "Y=1\n2",
    // the bankswitching schemes the reference builder knows
    "__3E__", "__3E_PLUS__", "__DPC__", "__DPCPLUS__", "__3E__=0",
];

pub const INCLUDE_FAULTS: [&str; 10] =
    ["missing", "empty", "is_directory", "truncated", "corrupt", "self_include", "mutual_include", "name_too_long", "non_utf8", "fan_out"];

/// Applies an include-tree fault to job `j` (which must have include files). `a`, `b`: free parameters.
pub fn apply_include_fault(j: &mut JobSpec, kind: &str, a: usize, b: usize) {
    if j.includes.is_empty() {
        return;
    }
    let fi = a % j.includes.len();
    let path = j.includes[fi].path.clone();
    let content = match &j.includes[fi].kind {
        IncKind::File(x) => x.0.clone(),
        IncKind::Dir => Vec::new(),
    };
    let base = path.rsplit('/').next().unwrap_or(&path).to_string();
    match kind {
        "missing" => {
            j.includes.remove(fi);
        }
        "empty" => j.includes[fi].kind = IncKind::File(Bytes(Vec::new())),
        "is_directory" => j.includes[fi].kind = IncKind::Dir,
        "truncated" => {
            let k = if content.is_empty() { 0 } else { b % content.len() };
            j.includes[fi].kind = IncKind::File(Bytes(content[..k].to_vec()));
        }
        "corrupt" => {
            let mut c = content.clone();
            if !c.is_empty() {
                let k = b % c.len();
                c[k] = faults::HOSTILE[(a / 7) % faults::HOSTILE.len()];
            }
            j.includes[fi].kind = IncKind::File(Bytes(c));
        }
        "non_utf8" => {
            let mut c = content.clone();
            let k = if c.is_empty() { 0 } else { b % c.len() };
            c.insert(k, 0xC3);
            c.insert(k + 1, 0x28);
            j.includes[fi].kind = IncKind::File(Bytes(c));
        }
        "self_include" => {
            let mut c = format!("#include \"{}\"\n", base).into_bytes();
            c.extend_from_slice(&content);
            j.includes[fi].kind = IncKind::File(Bytes(c));
        }
        "mutual_include" => {
            let other = format!("{}.mutual.h", base);
            let mut c = format!("#include \"{}\"\n", other).into_bytes();
            c.extend_from_slice(&content);
            j.includes[fi].kind = IncKind::File(Bytes(c));
            j.includes.push(IncFile { path: other, kind: IncKind::File(Bytes(format!("#include \"{}\"\n", base).into_bytes())) });
        }
        "fan_out" => {
            // a chain of `levels` small headers, each including the next one `fan` times: fan^levels inclusions
            // behind a depth of only `levels`
            let levels = 2 + a % 9;
            let fan = 2 + b % 7;
            let mut c = format!("#include \"{}.fan1.h\"\n", base).into_bytes();
            c.extend_from_slice(&content);
            j.includes[fi].kind = IncKind::File(Bytes(c));
            for i in 1..=levels {
                let text = if i == levels {
                    "#ifndef FAN_LEAF\n#define FAN_LEAF\nchar fan_leaf;\n#endif\n".to_string()
                } else {
                    format!("#include \"{}.fan{}.h\"\n", base, i + 1).repeat(fan)
                };
                j.includes.push(IncFile { path: format!("{}.fan{}.h", base, i), kind: IncKind::File(Bytes(text.into_bytes())) });
            }
        }
        "name_too_long" => {
            // the directive in the main source names a file whose name exceeds NAME_MAX
            let long = "n".repeat(300);
            let s = String::from_utf8_lossy(&j.source.0).replace(&base, &format!("{}.h", long));
            j.source = Bytes(s.into_bytes());
        }
        _ => {}
    }
    j.faults.push(format!("include:{}:{}", kind, path));
}

/// C16 seeded combination world: 2-3 stacked source faults, stutter duplication, torn tails,
/// delivery and sink faults, include faults, hostile option sets, optional history.
pub fn c16_world(seed: u64, corpus: &[Program]) -> World {
    let mut r = Rng::new(seed);
    let with_inc: Vec<usize> = (0..corpus.len()).filter(|i| !corpus[*i].includes.is_empty()).collect();
    let pi = if !with_inc.is_empty() && r.chance(1, 6) { *r.pick(&with_inc) } else { r.usize_below(corpus.len()) };
    let p = match r.below(8) {
        _ if r.chance(1, 150) => big(r.next_u64()),
        0 => soup(r.next_u64()),
        1 | 2 => progen(r.next_u64()),
        _ => corpus[pi].clone(),
    };
    let mode = r.below(10);
    let mut fl: Vec<SrcFault> = Vec::new();
    let mut cur = p.source.clone();
    let push = |f: SrcFault, cur: &mut Vec<u8>, fl: &mut Vec<SrcFault>| {
        *cur = f.apply(cur);
        fl.push(f);
    };
    match mode {
        0..=4 => {
            // 2-3 stacked single faults
            let n = 2 + r.usize_below(2);
            for _ in 0..n {
                let kind = *r.pick(&faults::SINGLE_KINDS);
                let sp = faults::space(kind, &cur);
                if sp > 0 {
                    let f = faults::nth(kind, &cur, r.usize_below(sp));
                    push(f, &mut cur, &mut fl);
                }
            }
        }
        5 => {
            // retransmission stutter of one token / small block
            let t = faults::tokens(&cur);
            if !t.is_empty() {
                let a = r.usize_below(t.len());
                let b = (a + r.usize_below(3)).min(t.len() - 1);
                let n = *r.pick(&[2u32, 10, 100, 1000, 5000, 20000]);
                // keep the stuttered text below 16 KiB: beyond that the quadratic scanners of the
                // preprocessor turn every such world into a multi-second run without reaching new code
                let unit = (t[b].1 - t[a].0).max(1) as u32;
                let n = n.min(16384 / unit).max(2);
                push(SrcFault::Dup(t[a].0, t[b].1, n), &mut cur, &mut fl);
            }
        }
        6 => {
            let k = r.usize_below(cur.len() + 1);
            push(SrcFault::TornTail(k, r.below(3) as u8), &mut cur, &mut fl);
        }
        _ => {
            let kind = *r.pick(&faults::SINGLE_KINDS);
            let sp = faults::space(kind, &cur);
            if sp > 0 {
                let f = faults::nth(kind, &cur, r.usize_below(sp));
                push(f, &mut cur, &mut fl);
            }
        }
    }
    let mut job = damaged_job(&p, &fl);
    // option set
    if r.chance(1, 3) {
        let mut args = vec![format!("-O{}", r.below(4))];
        if r.chance(1, 3) {
            args.push("--insert-code".into());
        }
        if r.chance(1, 3) {
            args.push("-W".into());
            args.push("all".into());
        }
        if r.chance(1, 4) {
            args.push("--fsigned_char".into());
        }
        if r.chance(1, 3) {
            args.push("-D".into());
            args.push(r.pick(&HOSTILE_DEFINES).to_string());
        }
        if !p.includes.is_empty() {
            args.push("-I".into());
            args.push("$INC".into());
        }
        job.args = args;
    }
    if !job.includes.is_empty() && r.chance(1, 2) {
        let kind = *r.pick(&INCLUDE_FAULTS);
        apply_include_fault(&mut job, kind, r.usize_below(1000), r.usize_below(100000));
    }
    if r.chance(1, 4) {
        job.reader = stream(&mut r, true, true);
        if r.chance(1, 2) {
            job.reader.error_at = Some(r.below(job.source.0.len() as u64 + 1));
            job.reader.error_flavor = r.below(5) as u8;
        }
    }
    if r.chance(1, 4) {
        job.writer = stream(&mut r, true, true);
        if r.chance(1, 2) {
            job.writer.error_at = Some(r.below(3000));
            job.writer.error_flavor = r.below(5) as u8;
        }
    }
    coarsen(&mut job);
    let mut w = World::solo("C16", job);
    if r.chance(1, 8) {
        // history: something else ran on this thread before
        let q = pick_program(&mut r, corpus);
        w.jobs.insert(0, job_of(&q));
        w.threads[0].jobs = vec![0, 1];
    }
    if r.chance(1, 4) {
        w.threads[0].hash_key = to_hex(&r.bytes16());
    }
    if r.chance(1, 16) {
        w.env = 1 + r.below(crate::job::ENVIRONMENTS.len() as u64) as u8;
    }
    if r.chance(1, 10) {
        // the process's own stdout/stderr (warnings, parse errors are printed there) are broken
        w.stdio = 1 + r.below(4) as u8;
        if r.chance(1, 2) && !w.jobs[w.jobs.len() - 1].args.iter().any(|a| a == "-W") {
            let j = w.jobs.len() - 1;
            w.jobs[j].args.push("-W".into());
            w.jobs[j].args.push("all".into());
        }
    }
    if r.chance(1, 24) && w.jobs.iter().all(|j| j.source.0.len() <= 32 * 1024) {
        w.log_level = 4 + r.below(2) as u8;
    }
    w.seed = seed;
    w.note = "seeded combination".into();
    w
}


// ---------------------------------------------------------------- directed delivery worlds

/// Number of directed delivery variants per program.
pub const DELIVERY_VARIANTS: usize = 28;

/// The v-th directed delivery of program `pi`: chunk boundaries at every byte / every 2nd, 3rd, 7th byte,
/// `Interrupted` on every other call, a sink that takes 1 or 2 bytes per call, hard errors at the
/// first, middle and last byte of the input and of the output.
pub fn delivery_world(prop: &str, corpus: &[Program], pi: usize, v: usize) -> World {
    let p = &corpus[pi];
    let mut j = job_of(p);
    let n = p.source.len() as u64;
    let fixed = |k: u32| StreamSpec { chunks: ChunkSpec::Fixed(k), eintr: EintrSpec::Never, error_at: None, error_flavor: 0 };
    let intr = |k: u32, seed: u64| StreamSpec { chunks: ChunkSpec::Fixed(k), eintr: EintrSpec::Seeded { seed, den: 2 }, error_at: None, error_flavor: 0 };
    match v {
        0 => j.reader = fixed(1),
        1 => j.reader = fixed(2),
        2 => j.reader = fixed(3),
        3 => j.reader = fixed(7),
        4 => j.reader = intr(1, 11 + pi as u64),
        5 => j.writer = fixed(1),
        6 => j.writer = fixed(2),
        7 => j.writer = intr(3, 29 + pi as u64),
        8 => {
            j.reader = intr(2, 5 + pi as u64);
            j.writer = intr(1, 7 + pi as u64);
        }
        9 => j.reader.error_at = Some(0),
        10 => j.reader.error_at = Some(n / 2),
        11 => j.reader.error_at = Some(n.saturating_sub(1)),
        12 => j.writer.error_at = Some(0),
        13 => j.writer.error_at = Some(200),
        26 | 27 => {}
        _ => {
            // a failing sink at a sweep of offsets, with every error shape (payload, kind only, OS, Ok(0));
            // variants 14..=25: offsets 60, 140, .. up to ~1500 bytes
            let k = (v - 14) as u64;
            j.writer.error_at = Some(60 + 80 * k + 45 * (k % 3) * k);
            j.writer.error_flavor = (k % 5) as u8;
            if k % 2 == 1 {
                j.writer.chunks = ChunkSpec::Fixed(7);
            }
            if k >= 8 {
                j.reader.error_at = Some((n * (k - 7)) / 5);
                j.reader.error_flavor = (k % 5) as u8;
                j.writer.error_at = None;
            }
        }
    }
    j.label = format!("{} delivery#{}", p.name, v);
    let mut w = World::solo(prop, j);
    if v >= 26 {
        // canonical delivery, but the process logs at Debug (26) / Trace (27) level
        w.jobs[0].reader = StreamSpec::canonical();
        w.jobs[0].writer = StreamSpec::canonical();
        w.log_level = if v == 26 { 4 } else { 5 };
    }
    w.seed = crate::rng::mix(0xDE11, (pi as u64) << 8 | v as u64);
    w.note = format!("directed delivery variant {} of program {}", v, pi);
    w
}


/// C16 directed pass over generated programs: the i-th generated program as it is (even index) or
/// with one random single fault (odd index).
pub fn c16_progen_world(base: u64, i: u64) -> World {
    let mut r = Rng::new(crate::rng::mix(base ^ 0x9806, i / 2));
    let p = progen(r.next_u64());
    let mut w = if i % 2 == 0 {
        World::solo("C16", job_of(&p))
    } else {
        let kind = *r.pick(&faults::SINGLE_KINDS);
        let sp = faults::space(kind, &p.source);
        if sp > 0 {
            let f = faults::nth(kind, &p.source, r.usize_below(sp));
            World::solo("C16", damaged_job(&p, &[f]))
        } else {
            World::solo("C16", job_of(&p))
        }
    };
    w.seed = crate::rng::mix(base, i);
    w.note = format!("generated program #{}", i);
    w
}
