//! Baton scheduler: real threads, but exactly one is runnable at any time and the simulator's
//! PRNG (or an explicit recorded trace) decides who holds the baton after every scheduling point.

use crate::rng::Rng;
use serde::{Deserialize, Serialize};
use std::sync::{Condvar, Mutex};
use std::time::{Duration, Instant};

#[derive(Clone, Debug, Serialize, Deserialize, PartialEq)]
pub enum SchedSpec {
    /// never pre-empt; when a thread ends the lowest-numbered live thread continues
    Sequential,
    /// at every scheduling point switch away with probability 1/den
    Random { seed: u64, den: u32 },
    /// PCT: random thread priorities, `depth-1` priority change points within `horizon` points
    Pct { seed: u64, depth: u32, horizon: u32 },
    /// run-length encoded list of decisions (thread, number of consecutive decisions)
    Explicit(Vec<(u8, u32)>),
}

pub struct Sched {
    inner: Mutex<Inner>,
    cv: Condvar,
}

struct Inner {
    current: Option<usize>,
    alive: Vec<bool>,
    n_alive: usize,
    spec: SchedSpec,
    rng: Rng,
    prio: Vec<u32>,
    change_points: Vec<u64>,
    points: u64,
    decisions: u64,
    switches: u64,
    trace: Vec<(u8, u32)>,
    ex_idx: usize,
    ex_used: u32,
    trace_mismatch: bool,
}

#[derive(Clone, Debug, Default)]
pub struct SchedReport {
    pub points: u64,
    pub decisions: u64,
    pub switches: u64,
    pub trace: Vec<(u8, u32)>,
    pub trace_mismatch: bool,
}

impl Inner {
    fn record(&mut self, t: usize) {
        self.decisions += 1;
        if let Some(last) = self.trace.last_mut() {
            if last.0 as usize == t {
                last.1 += 1;
                return;
            }
        }
        self.trace.push((t as u8, 1));
    }

    /// `me`: the thread asking (None when it has just ended or at kickoff)
    fn decide(&mut self, me: Option<usize>) -> usize {
        let lowest = self.alive.iter().position(|a| *a).expect("no live thread");
        if self.n_alive == 1 {
            return lowest;
        }
        let stay = me.filter(|m| self.alive[*m]);
        let choice = match &self.spec {
            SchedSpec::Sequential => stay.unwrap_or(lowest),
            SchedSpec::Random { den, .. } => {
                let den = *den as u64;
                match stay {
                    Some(m) if !self.rng.chance(1, den.max(1)) => m,
                    _ => {
                        // uniform among the live threads other than `me`
                        let cands: Vec<usize> = (0..self.alive.len())
                            .filter(|i| self.alive[*i] && Some(*i) != stay)
                            .collect();
                        cands[self.rng.usize_below(cands.len())]
                    }
                }
            }
            SchedSpec::Pct { .. } => {
                if let Some(m) = stay {
                    if let Some(k) = self.change_points.iter().position(|p| *p == self.points) {
                        // lower the running thread below everything else
                        self.prio[m] = k as u32;
                    }
                }
                let mut best = lowest;
                for i in 0..self.alive.len() {
                    if self.alive[i] && self.prio[i] > self.prio[best] {
                        best = i;
                    }
                }
                best
            }
            SchedSpec::Explicit(list) => {
                let mut c = None;
                while self.ex_idx < list.len() {
                    let (t, cnt) = list[self.ex_idx];
                    if self.ex_used < cnt {
                        self.ex_used += 1;
                        c = Some(t as usize);
                        break;
                    }
                    self.ex_idx += 1;
                    self.ex_used = 0;
                }
                match c {
                    Some(t) if t < self.alive.len() && self.alive[t] => t,
                    Some(_) => {
                        self.trace_mismatch = true;
                        stay.unwrap_or(lowest)
                    }
                    None => stay.unwrap_or(lowest),
                }
            }
        };
        self.record(choice);
        choice
    }
}

impl Sched {
    pub fn new(n: usize, spec: SchedSpec) -> Sched {
        let (seed, depth, horizon) = match &spec {
            SchedSpec::Random { seed, .. } => (*seed, 0, 0),
            SchedSpec::Pct { seed, depth, horizon } => (*seed, *depth, *horizon),
            _ => (0, 0, 0),
        };
        let mut rng = Rng::new(seed);
        let mut prio: Vec<u32> = (0..n as u32).map(|i| 1000 + i).collect();
        let mut change_points = Vec::new();
        if let SchedSpec::Pct { .. } = spec {
            // random permutation of the high priorities
            for i in (1..n).rev() {
                let j = rng.usize_below(i + 1);
                prio.swap(i, j);
            }
            for _ in 1..depth.max(1) {
                change_points.push(rng.below(horizon.max(1) as u64));
            }
        }
        Sched {
            inner: Mutex::new(Inner {
                current: None,
                alive: vec![true; n],
                n_alive: n,
                spec,
                rng,
                prio,
                change_points,
                points: 0,
                decisions: 0,
                switches: 0,
                trace: Vec::new(),
                ex_idx: 0,
                ex_used: 0,
                trace_mismatch: false,
            }),
            cv: Condvar::new(),
        }
    }

    /// Called by the simulator thread once every caller thread has been spawned.
    pub fn kickoff(&self) {
        let mut g = self.inner.lock().unwrap();
        if g.n_alive == 0 {
            return;
        }
        let t = g.decide(None);
        g.current = Some(t);
        self.cv.notify_all();
    }

    /// Called by a caller thread before it does anything: parks until it is given the baton.
    pub fn start(&self, me: usize) {
        let mut g = self.inner.lock().unwrap();
        while g.current != Some(me) {
            g = self.cv.wait(g).unwrap();
        }
    }

    /// A scheduling point. `on_switch_out` runs (still holding the baton) when another thread is chosen.
    #[inline]
    pub fn yield_point(&self, me: usize, on_switch_out: impl FnOnce()) {
        let mut g = self.inner.lock().unwrap();
        g.points += 1;
        if g.n_alive <= 1 {
            return;
        }
        let next = g.decide(Some(me));
        if next == me {
            return;
        }
        on_switch_out();
        g.switches += 1;
        g.current = Some(next);
        self.cv.notify_all();
        while g.current != Some(me) {
            g = self.cv.wait(g).unwrap();
        }
    }

    /// The calling thread has no more jobs.
    pub fn finish(&self, me: usize, on_switch_out: impl FnOnce()) {
        let mut g = self.inner.lock().unwrap();
        on_switch_out();
        g.alive[me] = false;
        g.n_alive -= 1;
        if g.n_alive > 0 {
            let next = g.decide(None);
            g.current = Some(next);
        } else {
            g.current = None;
        }
        self.cv.notify_all();
    }

    /// Simulator thread: wait until every caller thread has finished; false on wall-clock timeout.
    pub fn wait_all_done(&self, timeout: Duration) -> bool {
        let deadline = Instant::now() + timeout;
        let mut g = self.inner.lock().unwrap();
        while g.n_alive > 0 {
            let now = Instant::now();
            if now >= deadline {
                return false;
            }
            let (ng, _) = self.cv.wait_timeout(g, deadline - now).unwrap();
            g = ng;
        }
        true
    }

    pub fn current(&self) -> Option<usize> {
        self.inner.lock().unwrap().current
    }

    pub fn report(&self) -> SchedReport {
        let g = self.inner.lock().unwrap();
        SchedReport {
            points: g.points,
            decisions: g.decisions,
            switches: g.switches,
            trace: g.trace.clone(),
            trace_mismatch: g.trace_mismatch,
        }
    }
}
