//! World description: everything one simulated execution depends on, serialisable as the replay file.

use crate::rng::Fnv;
use crate::sched::SchedSpec;
use crate::simio::StreamSpec;
use serde::{Deserialize, Deserializer, Serialize, Serializer};

/// Byte string that serialises as a JSON string when it is UTF-8 and as {"hex": ".."} otherwise.
#[derive(Clone, Debug, PartialEq, Eq, Default)]
pub struct Bytes(pub Vec<u8>);

#[derive(Serialize, Deserialize)]
#[serde(untagged)]
enum BytesRepr {
    Text(String),
    Hex { hex: String },
}

impl Serialize for Bytes {
    fn serialize<S: Serializer>(&self, s: S) -> Result<S::Ok, S::Error> {
        match std::str::from_utf8(&self.0) {
            Ok(t) => BytesRepr::Text(t.to_string()).serialize(s),
            Err(_) => BytesRepr::Hex { hex: to_hex(&self.0) }.serialize(s),
        }
    }
}
impl<'de> Deserialize<'de> for Bytes {
    fn deserialize<D: Deserializer<'de>>(d: D) -> Result<Bytes, D::Error> {
        Ok(match BytesRepr::deserialize(d)? {
            BytesRepr::Text(t) => Bytes(t.into_bytes()),
            BytesRepr::Hex { hex } => Bytes(from_hex(&hex)),
        })
    }
}

pub fn to_hex(b: &[u8]) -> String {
    let mut s = String::with_capacity(b.len() * 2);
    for x in b {
        s.push_str(&format!("{:02x}", x));
    }
    s
}
pub fn from_hex(s: &str) -> Vec<u8> {
    let b = s.as_bytes();
    let mut out = Vec::with_capacity(b.len() / 2);
    let v = |c: u8| -> u8 {
        match c {
            b'0'..=b'9' => c - b'0',
            b'a'..=b'f' => c - b'a' + 10,
            b'A'..=b'F' => c - b'A' + 10,
            _ => 0,
        }
    };
    let mut i = 0;
    while i + 1 < b.len() {
        out.push(v(b[i]) << 4 | v(b[i + 1]));
        i += 2;
    }
    out
}

#[derive(Clone, Debug, Serialize, Deserialize, PartialEq)]
pub enum IncKind {
    File(Bytes),
    /// a directory where a file is expected
    Dir,
}

#[derive(Clone, Debug, Serialize, Deserialize, PartialEq)]
pub struct IncFile {
    pub path: String,
    pub kind: IncKind,
}

#[derive(Clone, Debug, Serialize, Deserialize)]
pub struct JobSpec {
    /// human-readable origin: base program and the damage applied
    pub label: String,
    pub source: Bytes,
    #[serde(default)]
    pub includes: Vec<IncFile>,
    /// command-line options after the input file name; the token `$INC` is replaced by the
    /// directory the include tree is materialised in
    pub args: Vec<String>,
    pub reader: StreamSpec,
    pub writer: StreamSpec,
    /// step budget (ticks of hook H1); 0 = default formula
    #[serde(default)]
    pub fuel: u64,
    /// damage already applied to `source` / `includes` (documentation; fired by construction)
    #[serde(default)]
    pub faults: Vec<String>,
}

impl JobSpec {
    pub fn plain(label: &str, source: &[u8], includes: &[IncFile], args: &[String]) -> JobSpec {
        JobSpec {
            label: label.to_string(),
            source: Bytes(source.to_vec()),
            includes: includes.to_vec(),
            args: args.to_vec(),
            reader: StreamSpec::canonical(),
            writer: StreamSpec::canonical(),
            fuel: 0,
            faults: Vec::new(),
        }
    }
    /// identity of the compilation request: (source bytes, include tree, option vector)
    pub fn key(&self) -> u64 {
        let mut h = Fnv::new();
        h.write(&self.source.0);
        h.write(&[0xfe]);
        h.write_u64(self.inc_hash());
        for a in &self.args {
            h.write_str(a);
        }
        h.finish()
    }
    pub fn inc_hash(&self) -> u64 {
        let mut h = Fnv::new();
        for f in &self.includes {
            h.write_str(&f.path);
            match &f.kind {
                IncKind::File(b) => {
                    h.write(&[1]);
                    h.write(&b.0);
                }
                IncKind::Dir => h.write(&[2]),
            }
            h.write(&[0xfd]);
        }
        h.finish()
    }
    pub fn default_fuel(&self) -> u64 {
        let mut n = self.source.0.len() as u64;
        for f in &self.includes {
            if let IncKind::File(b) = &f.kind {
                n += b.0.len() as u64;
            }
        }
        2_000_000 + 2_000 * n
    }
    /// Budget of macro-expansion passes (tick site `cpp.replace_all`): a terminating run needs at most
    /// (macro nesting depth + 1) passes per logical line, so 20 000 + 50 per line is generous; it
    /// catches expansions that never reach a fixed point while their text is still small.
    pub fn replace_cap(&self) -> u64 {
        let mut lines = self.source.0.iter().filter(|b| **b == b'\n').count() as u64 + 1;
        for f in &self.includes {
            if let IncKind::File(b) = &f.kind {
                lines += b.0.iter().filter(|b| **b == b'\n').count() as u64 + 1;
            }
        }
        // an include tree may deliver its files many times (up to the 10 000 inclusions the preprocessor
        // allows since fix cad8344): 40 passes for each of them on top
        20_000 + 50 * lines + if self.includes.is_empty() { 0 } else { 400_000 }
    }
    pub fn canonical_delivery(&self) -> bool {
        self.reader.is_canonical() && self.writer.is_canonical()
    }
}

#[derive(Clone, Debug, Serialize, Deserialize)]
pub struct ThreadSpec {
    /// 16 bytes, hex: the SipHash key std's RandomState receives on this thread
    pub hash_key: String,
    /// indices into `World::jobs`, run back-to-back on this thread
    pub jobs: Vec<usize>,
}

#[derive(Clone, Debug, Serialize, Deserialize)]
pub struct World {
    pub prop: String,
    pub seed: u64,
    pub threads: Vec<ThreadSpec>,
    pub jobs: Vec<JobSpec>,
    pub sched: SchedSpec,
    #[serde(default)]
    pub note: String,
    /// process-wide `log` verbosity while this world runs (what RUST_LOG sets in the front ends):
    /// 3 = Info (default), 4 = Debug, 5 = Trace. Records above Info are formatted but not observed.
    #[serde(default = "default_log_level")]
    pub log_level: u8,
    /// process environment while this world runs: 0 = baseline, 1.. = one of `job::ENVIRONMENTS` (environment
    /// variables and working directory a user's shell may differ in). References always run in the baseline.
    #[serde(default)]
    pub env: u8,
    /// fault on the process's own stdout/stderr while this world runs (see simenv::break_stdio); 0 = none
    #[serde(default)]
    pub stdio: u8,
}

pub fn default_log_level() -> u8 {
    3
}

impl World {
    pub fn solo(prop: &str, job: JobSpec) -> World {
        World {
            prop: prop.to_string(),
            seed: 0,
            threads: vec![ThreadSpec { hash_key: to_hex(&[0u8; 16]), jobs: vec![0] }],
            jobs: vec![job],
            sched: SchedSpec::Sequential,
            note: String::new(),
            log_level: 3,
            env: 0,
            stdio: 0,
        }
    }
}

/// A replay file: one or more worlds run in order in one fresh process.
#[derive(Clone, Debug, Serialize, Deserialize)]
pub struct ReplayFile {
    pub property: String,
    pub violation_class: String,
    pub violation_key: String,
    pub detail: String,
    pub cargo_features: String,
    pub worlds: Vec<World>,
    /// recorded when the violation was confirmed: per world, the schedule decisions taken (thread, count)
    /// and the event digest; a replay that takes other decisions or reaches another digest says so
    #[serde(default)]
    pub recorded: Vec<(Vec<(u8, u32)>, u64)>,
}
