//! Seeded program generator ("program soup"): workload only.
//!
//! Produces syntactically valid programs of the cc6502 C subset from a probabilistic grammar with a
//! symbol table (declared globals, locals, parameters, functions), so that most names resolve. It
//! exists to put *combinations* of features in front of the simulator that the hand-written corpus
//! does not contain (empty switches, sizeof in declarations, shadowed const tables, escapes in
//! strings, call chains of a random depth shared by two interrupt handlers, hundreds of macros or
//! globals, far branches, ...). Many generated programs are rejected by the compiler with a located
//! error ("Code too complex", "not implemented"): that is fine, the oracles never look at what a
//! program means - C05 compares observations, C16 demands a result or a located error.

use crate::corpus::Program;
use crate::rng::Rng;

#[derive(Clone, Copy, PartialEq)]
enum Ty {
    Char,
    Short,
    CharArr,
    ShortArr,
    CharPtr,
    ConstTab,
    PtrTab,
}

#[derive(Clone)]
struct Sym {
    name: String,
    ty: Ty,
    len: u64,
    konst: bool,
}

#[derive(Clone)]
struct Func {
    name: String,
    params: Vec<Ty>,
    returns: bool,
}

struct G {
    r: Rng,
    globals: Vec<Sym>,
    funcs: Vec<Func>,
    macros: Vec<(String, usize)>,
    scopes: Vec<Vec<Sym>>,
    labels: u32,
    in_loop: u32,
    cur_returns: bool,
    cur_name: String,
}

const WORDS: [&str; 12] = ["hello", "OK", "KO", "a", "", "tab\\there", "q\\\"uote", "esc\\\\", "\\x41B", "nul\\0in", "h\u{e9}llo", "\u{65e5}\u{672c} ' it's"];
const CHARS: [&str; 8] = ["'a'", "'Z'", "'0'", "' '", "'\\n'", "'\\t'", "'\\\\'", "'\\''"];

impl G {
    fn pick<'a, T>(&mut self, v: &'a [T]) -> &'a T {
        &v[self.r.usize_below(v.len())]
    }
    fn visible(&self) -> Vec<Sym> {
        let mut v: Vec<Sym> = self.globals.clone();
        for s in &self.scopes {
            for x in s {
                v.retain(|g| g.name != x.name);
                v.push(x.clone());
            }
        }
        v
    }
    fn of(&self, tys: &[Ty]) -> Vec<Sym> {
        self.visible().into_iter().filter(|s| tys.contains(&s.ty)).collect()
    }
    fn vars(&self) -> Vec<Sym> {
        self.visible().into_iter().filter(|s| (s.ty == Ty::Char || s.ty == Ty::Short) && !s.konst).collect()
    }
    fn char_vars(&self) -> Vec<Sym> {
        self.visible().into_iter().filter(|s| s.ty == Ty::Char && !s.konst).collect()
    }
    fn lit(&mut self) -> String {
        match self.r.below(13) {
            12 => match self.r.below(24) {
                // extremes of the constant evaluator, quotes and multi-byte characters in character constants
                0 | 1 => "2147483647".into(),
                2 | 3 => "(-2147483647 - 1)".into(),
                4 | 5 => "-1".into(),
                6 => "'\"'".into(),
                7 => "'\\\"'".into(),
                8 | 9 => "'\u{e9}'".into(),
                _ => "32768".into(),
            },
            0 => "0".into(),
            1 => "1".into(),
            2 => "255".into(),
            3 => "256".into(),
            4 => "0x7f".into(),
            5 => "017".into(),
            6 => self.pick(&CHARS).to_string(),
            7 => format!("{}", self.r.below(65536)),
            _ => format!("{}", self.r.below(200)),
        }
    }
    fn index(&mut self, len: u64) -> String {
        match self.r.below(5) {
            0 | 1 => "X".into(),
            2 => "Y".into(),
            3 => format!("{}", self.r.below(len.max(1))),
            _ => {
                let c = self.char_vars();
                if c.is_empty() {
                    "X".into()
                } else {
                    self.pick(&c).name.clone()
                }
            }
        }
    }
    /// an 8-bit or 16-bit valued expression
    fn expr(&mut self, depth: u32) -> String {
        if depth == 0 || self.r.chance(1, 2) {
            // leaf
            return match self.r.below(11) {
                0 | 1 => self.lit(),
                2 | 3 => {
                    let c = self.of(&[Ty::Char, Ty::Short]);
                    if c.is_empty() {
                        self.lit()
                    } else {
                        self.pick(&c).name.clone()
                    }
                }
                4 => {
                    let c = self.of(&[Ty::CharArr, Ty::ConstTab, Ty::ShortArr]);
                    if c.is_empty() {
                        self.lit()
                    } else {
                        let s = self.pick(&c).clone();
                        let i = self.index(s.len);
                        format!("{}[{}]", s.name, i)
                    }
                }
                5 => {
                    let c = self.of(&[Ty::CharPtr]);
                    if c.is_empty() {
                        "X".into()
                    } else {
                        let s = self.pick(&c).clone();
                        if self.r.chance(1, 2) {
                            format!("{}[Y]", s.name)
                        } else {
                            format!("*{}", s.name)
                        }
                    }
                }
                6 => if self.r.chance(1, 2) { "X".into() } else { "Y".into() },
                7 => {
                    let fs: Vec<Func> = self.funcs.iter().filter(|f| f.returns && f.name != self.cur_name).cloned().collect();
                    if fs.is_empty() {
                        self.lit()
                    } else {
                        let f = self.pick(&fs).clone();
                        self.call(&f, depth)
                    }
                }
                8 => {
                    let v: Vec<Sym> = self.globals.iter().filter(|g| g.ty != Ty::CharPtr && g.ty != Ty::PtrTab).cloned().collect();
                    if v.is_empty() || self.r.chance(1, 4) {
                        (*self.pick(&["sizeof(char)", "sizeof(short)"])).to_string()
                    } else {
                        format!("sizeof({})", self.pick(&v).name)
                    }
                }
                9 => {
                    let ms: Vec<(String, usize)> = self.macros.iter().filter(|m| m.1 < 9).cloned().collect();
                    if ms.is_empty() {
                        self.lit()
                    } else {
                        let m = self.pick(&ms).clone();
                        match m.1 {
                            0 => m.0,
                            1 => format!("{}({})", m.0, self.lit()),
                            _ => format!("{}({}, {})", m.0, self.lit(), self.lit()),
                        }
                    }
                }
                _ => self.lit(),
            };
        }
        let a = self.expr(depth - 1);
        match self.r.below(18) {
            // the 6502 has no multiplier: products and quotients exist between constants only
            16 => {
                let (l, r) = (self.lit(), self.lit());
                format!("{} + ({} {} {})", a, l, *self.pick(&["*", "/", "*", "/", "-", "<<"]), r)
            }
            0 => format!("{} + {}", a, self.expr(depth - 1)),
            1 => format!("{} - {}", a, self.expr(depth - 1)),
            2 => format!("{} & {}", a, self.expr(depth - 1)),
            3 => format!("{} | {}", a, self.expr(depth - 1)),
            4 => format!("{} ^ {}", a, self.expr(depth - 1)),
            5 => format!("{} << {}", a, 1 + self.r.below(8)),
            6 => format!("{} >> {}", a, 1 + self.r.below(8)),
            7 => format!("({})", a),
            8 => format!("-{}", a),
            9 => format!("~{}", a),
            10 => format!("({} ? {} : {})", self.cond(depth - 1), a, self.expr(depth - 1)),
            11 => format!("({} + {}) - {}", a, self.expr(depth - 1), self.lit()),
            12 => format!("{} + {}", self.lit(), a),
            13 => format!("({}, {})", a, self.expr(depth - 1)),
            _ => a,
        }
    }
    fn cond(&mut self, depth: u32) -> String {
        // "variable op literal" is the shape the compiler handles; constants on the left are folded by
        // paths that are "partially implemented", so they are rare here
        let a = if self.r.chance(1, 12) { self.expr(1) } else { self.simple_var() };
        let b = if self.r.chance(3, 4) { format!("{}", self.r.below(200)) } else { self.simple_var() };
        let op = *self.pick(&["==", "!=", "<", "<=", ">", ">="]);
        match self.r.below(14) {
            0 => a,
            1 => format!("!{}", a),
            2 if depth > 0 => format!("{} {} {} && {}", a, op, b, self.cond(depth - 1)),
            3 if depth > 0 => format!("{} {} {} || {}", a, op, b, self.cond(depth - 1)),
            4 => "1".into(),
            _ => format!("{} {} {}", a, op, b),
        }
    }
    fn call(&mut self, f: &Func, depth: u32) -> String {
        let mut args = Vec::new();
        for p in &f.params {
            args.push(match p {
                Ty::CharPtr => {
                    let c = self.of(&[Ty::CharArr, Ty::CharPtr, Ty::ConstTab]);
                    if c.is_empty() || self.r.chance(1, 4) {
                        format!("\"{}\"", self.pick(&WORDS))
                    } else {
                        self.pick(&c).name.clone()
                    }
                }
                _ => self.expr(depth.min(1)),
            });
        }
        format!("{}({})", f.name, args.join(", "))
    }
    fn lvalue(&mut self) -> String {
        match self.r.below(8) {
            0 => "X".into(),
            1 => "Y".into(),
            2 | 3 => {
                let c = self.of(&[Ty::CharArr, Ty::ShortArr]);
                if c.is_empty() {
                    "X".into()
                } else {
                    let s = self.pick(&c).clone();
                    let i = self.index(s.len);
                    format!("{}[{}]", s.name, i)
                }
            }
            4 => {
                let c = self.of(&[Ty::CharPtr]);
                if c.is_empty() {
                    "Y".into()
                } else {
                    let s = self.pick(&c).clone();
                    if self.r.chance(1, 2) {
                        format!("*{}", s.name)
                    } else {
                        format!("{}[Y]", s.name)
                    }
                }
            }
            _ => {
                let c = self.vars();
                if c.is_empty() {
                    "X".into()
                } else {
                    self.pick(&c).name.clone()
                }
            }
        }
    }
    fn simple_var(&mut self) -> String {
        let c = self.char_vars();
        match self.r.below(4) {
            0 => "X".into(),
            1 => "Y".into(),
            _ if c.is_empty() => "X".into(),
            _ => self.pick(&c).name.clone(),
        }
    }
    fn local_decl(&mut self, ind: &str, out: &mut String) {
        // sibling blocks must not reuse a name (the compiler rejects it); a nested block may shadow an
        // ancestor's local or a global
        self.labels += 1;
        let fresh = format!("{}{}", *self.pick(&["t", "i", "n", "tab", "buf", "p"]), self.labels);
        let outer: Vec<Sym> = self.scopes.iter().rev().skip(1).flat_map(|s| s.iter().cloned()).collect();
        let name = if !outer.is_empty() && self.r.chance(1, 5) { self.pick(&outer).name.clone() } else { fresh };
        if self.scopes.last().map(|s| s.iter().any(|x| x.name == name)).unwrap_or(false) {
            return;
        }
        let (ty, len, konst, text) = match self.r.below(8) {
            0 | 1 => (Ty::Char, 1, false, format!("char {};", name)),
            2 => (Ty::Char, 1, false, format!("char {} = {};", name, self.expr(1))),
            3 => (Ty::Short, 1, false, format!("short {} = {};", name, self.lit())),
            4 => {
                let n = 1 + self.r.below(6);
                (Ty::CharArr, n, false, format!("char {}[{}];", name, n))
            }
            5 => {
                let n = 1 + self.r.below(5);
                let items: Vec<String> = (0..n).map(|_| format!("{}", self.r.below(256))).collect();
                (Ty::ConstTab, n, true, format!("const char {}[] = {{{}}};", name, items.join(", ")))
            }
            6 => {
                let v: Vec<Sym> = self.visible().into_iter().filter(|g| g.ty == Ty::CharArr || g.ty == Ty::ConstTab).collect();
                if v.is_empty() {
                    (Ty::Char, 1, false, format!("char {};", name))
                } else {
                    // sizeof in a declaration (constant expression context)
                    let s = self.pick(&v).name.clone();
                    (Ty::CharArr, 2, false, format!("char {}[sizeof({})];", name, s))
                }
            }
            _ => (Ty::CharPtr, 1, false, format!("char *{} = \"{}\";", name, self.pick(&WORDS))),
        };
        out.push_str(ind);
        out.push_str(&text);
        out.push('\n');
        self.scopes.last_mut().unwrap().push(Sym { name, ty, len, konst });
    }
    fn block(&mut self, depth: u32, ind: &str, out: &mut String) {
        self.scopes.push(Vec::new());
        let inner = format!("{}  ", ind);
        if self.r.chance(2, 3) {
            for _ in 0..self.r.below(3) {
                self.local_decl(&inner, out);
            }
        }
        let n = self.r.below(5);
        for _ in 0..n {
            self.stmt(depth, &inner, out);
        }
        self.scopes.pop();
    }
    fn stmt(&mut self, depth: u32, ind: &str, out: &mut String) {
        let k = if depth == 0 { self.r.below(10) } else { self.r.below(24) };
        match k {
            0..=2 => {
                let l = self.lvalue();
                let d = if self.r.chance(1, 4) { 2 } else { 1 };
                let e = self.expr(d);
                out.push_str(&format!("{}{} = {};\n", ind, l, e));
            }
            3 => {
                let l = self.lvalue();
                let op = *self.pick(&["+=", "-=", "&=", "|=", "^=", "<<=", ">>="]);
                let e = if op.contains('<') || op.contains('>') { format!("{}", 1 + self.r.below(7)) } else { self.expr(1) };
                out.push_str(&format!("{}{} {} {};\n", ind, l, op, e));
            }
            4 => {
                let l = self.lvalue();
                let s = match self.r.below(4) {
                    0 => format!("{}++;", l),
                    1 => format!("{}--;", l),
                    2 => format!("++{};", l),
                    _ => format!("--{};", l),
                };
                out.push_str(&format!("{}{}\n", ind, s));
            }
            5 => {
                let fs: Vec<Func> = self.funcs.iter().filter(|f| f.name != self.cur_name).cloned().collect();
                if !fs.is_empty() {
                    let f = self.pick(&fs).clone();
                    let c = self.call(&f, 1);
                    out.push_str(&format!("{}{};\n", ind, c));
                }
            }
            6 => out.push_str(&format!("{}sink = \"{}\";\n", ind, self.pick(&WORDS))),
            7 => {
                let s = match self.r.below(6) {
                    0 => "asm(\"NOP\", 1);".to_string(),
                    1 => format!("csleep({});", *self.pick(&[2u32, 4, 6, 7, 8, 2, 4, 3, 9, 12])),
                    2 => format!("load({});", self.expr(0)),
                    3 => format!("store({});", self.lvalue()),
                    4 => ";".to_string(),
                    _ => "asm(\"; note\", 0);".to_string(),
                };
                out.push_str(&format!("{}{}\n", ind, s));
            }
            8 => {
                if self.cur_returns {
                    let e = self.expr(1);
                    out.push_str(&format!("{}return {};\n", ind, e));
                } else if self.r.chance(1, 3) {
                    out.push_str(&format!("{}return;\n", ind));
                }
            }
            9 => {
                if self.in_loop > 0 || self.r.chance(1, 12) {
                    out.push_str(&format!("{}{};\n", ind, if self.r.chance(1, 2) { "break" } else { "continue" }));
                }
            }
            10 | 11 => {
                let c = self.cond(1);
                out.push_str(&format!("{}if ({}) {{\n", ind, c));
                self.block(depth - 1, ind, out);
                if self.r.chance(1, 2) {
                    out.push_str(&format!("{}}} else {{\n", ind));
                    self.block(depth - 1, ind, out);
                }
                out.push_str(&format!("{}}}\n", ind));
            }
            12 => {
                let c = self.cond(1);
                out.push_str(&format!("{}if ({}) {};\n", ind, c, if self.in_loop > 0 && self.r.chance(1, 2) { if self.r.chance(1, 2) { "break" } else { "continue" } } else { "X++" }));
            }
            13 => {
                let c = self.cond(1);
                out.push_str(&format!("{}while ({}) {{\n", ind, c));
                self.in_loop += 1;
                self.block(depth - 1, ind, out);
                self.in_loop -= 1;
                out.push_str(&format!("{}}}\n", ind));
            }
            14 => {
                out.push_str(&format!("{}do {{\n", ind));
                self.in_loop += 1;
                self.block(depth - 1, ind, out);
                self.in_loop -= 1;
                let c = self.cond(0);
                out.push_str(&format!("{}}} while ({});\n", ind, c));
            }
            15 | 16 => {
                let v = self.simple_var();
                let n = self.r.below(20);
                let head = match self.r.below(4) {
                    0 => format!("for ({} = 0; {} != {}; {}++)", v, v, n, v),
                    1 => format!("for ({} = {}; {}; {}--)", v, n, v, v),
                    2 => format!("for ({} = 0; {} < {}; )", v, v, n),
                    _ => format!("for (; {} < {}; {}++)", v, n, v),
                };
                out.push_str(&format!("{}{} {{\n", ind, head));
                self.in_loop += 1;
                self.block(depth - 1, ind, out);
                self.in_loop -= 1;
                out.push_str(&format!("{}}}\n", ind));
            }
            17 | 18 => {
                let e = if self.r.chance(1, 10) { self.expr(1) } else { self.simple_var() };
                out.push_str(&format!("{}switch ({}) {{\n", ind, e));
                if self.r.chance(1, 10) {
                    // counts beyond the usual: a long run of labels sharing one body, or very many cases
                    let run = *self.pick(&[7u64, 8, 9, 12, 17, 33, 64, 130]);
                    let first = self.r.below(4);
                    let step = 1 + self.r.below(3);
                    let mut labels = String::new();
                    for k in 0..run {
                        labels.push_str(&format!("case {}: ", first + k * step));
                    }
                    if self.r.chance(1, 2) {
                        out.push_str(&format!("{}  {}\n{}    acc++;\n{}    break;\n", ind, labels, ind, ind));
                    } else {
                        for k in 0..run {
                            out.push_str(&format!("{}  case {}: acc = {}; break;\n", ind, first + k * step, k & 255));
                        }
                    }
                    out.push_str(&format!("{}  default: acc--;\n{}}}\n", ind, ind));
                    return;
                }
                let ncases = self.r.below(5);
                let mut used = Vec::new();
                // the grammar wants `default` last
                let default_at = if self.r.chance(1, 2) { ncases } else { 99 };
                for c in 0..=ncases {
                    if c == default_at {
                        out.push_str(&format!("{}  default:\n", ind));
                        if self.r.chance(2, 3) {
                            self.stmt(0, &format!("{}    ", ind), out);
                        }
                    }
                    if c == ncases {
                        break;
                    }
                    let v = self.r.below(6);
                    if used.contains(&v) && self.r.chance(3, 4) {
                        continue;
                    }
                    used.push(v);
                    out.push_str(&format!("{}  case {}:\n", ind, v));
                    if self.in_loop > 0 && self.r.chance(1, 5) {
                        // leave or restart the enclosing loop from inside a case
                        let c = self.cond(0);
                        let w = if self.r.chance(1, 2) { "continue" } else { "break" };
                        out.push_str(&format!("{}    if ({}) {};\n", ind, c, w));
                    }
                    if self.r.chance(3, 4) {
                        let d = if depth > 1 && self.r.chance(1, 5) { 1 } else { 0 };
                        self.stmt(d, &format!("{}    ", ind), out);
                        if self.r.chance(2, 3) {
                            out.push_str(&format!("{}    break;\n", ind));
                        }
                    }
                }
                out.push_str(&format!("{}}}\n", ind));
            }
            19 => {
                self.labels += 1;
                let l = format!("lab{}", self.labels);
                if self.r.chance(1, 2) {
                    out.push_str(&format!("{}{}: ;\n", ind, l));
                    let c = self.cond(0);
                    out.push_str(&format!("{}if ({}) goto {};\n", ind, c, l));
                } else {
                    out.push_str(&format!("{}goto {};\n", ind, l));
                    self.stmt(0, ind, out);
                    out.push_str(&format!("{}{}: ;\n", ind, l));
                }
            }
            20 => {
                out.push_str(&format!("{}{{\n", ind));
                self.block(depth - 1, ind, out);
                out.push_str(&format!("{}}}\n", ind));
            }
            _ => {
                let l = self.lvalue();
                let e = self.expr(2);
                out.push_str(&format!("{}{} = {};\n", ind, l, e));
            }
        }
    }
    fn global(&mut self, i: usize, out: &mut String) {
        let name = format!("g{}", i);
        let cls = match self.r.below(14) {
            0 => "superchip ",
            1 => "ramchip ",
            2 => "bank1 ",
            _ => "",
        };
        let sign = match self.r.below(6) {
            0 => "unsigned ",
            1 => "signed ",
            _ => "",
        };
        let (ty, len, konst, text) = match self.r.below(12) {
            0 | 1 => (Ty::Char, 1, false, format!("{}{}char {};", cls.replace("bank1 ", ""), sign, name)),
            2 => (Ty::Short, 1, false, format!("{}short {};", sign, name)),
            3 => {
                let n = 1 + self.r.below(16);
                (Ty::CharArr, n, false, format!("{}char {}[{}];", cls.replace("bank1 ", ""), name, n))
            }
            4 => {
                let n = 1 + self.r.below(4);
                (Ty::ShortArr, n, false, format!("short {}[{}];", name, n))
            }
            5 | 6 => {
                let n = 1 + self.r.below(8);
                let items: Vec<String> = (0..n).map(|_| self.lit()).collect();
                let al = if self.r.chance(1, 6) { "aligned(256) " } else { "" };
                let bank = if cls == "bank1 " { "bank1 " } else { "" };
                (Ty::ConstTab, n, true, format!("{}const {}char {}[] = {{{}}};", bank, al, name, items.join(", ")))
            }
            7 => (Ty::ConstTab, 4, true, format!("const char {}[] = \"{}\";", name, self.pick(&WORDS))),
            8 => {
                let n = 1 + self.r.below(4);
                let items: Vec<String> = (0..n).map(|_| format!("\"{}\"", self.pick(&WORDS))).collect();
                (Ty::PtrTab, n, true, format!("const char *{}[] = {{{}}};", name, items.join(", ")))
            }
            9 => {
                let arrs = self.of(&[Ty::CharArr, Ty::ConstTab]);
                if arrs.is_empty() {
                    (Ty::CharPtr, 1, false, format!("char *{};", name))
                } else {
                    let a = self.pick(&arrs).name.clone();
                    (Ty::CharPtr, 1, true, format!("const char *{} = {};", name, a))
                }
            }
            10 => {
                // constant expression initialiser
                let e = format!("{} {} {}", self.r.below(100), self.pick(&["+", "-", "*", "/", "&", "|", "<<", ">>"]), 1 + self.r.below(7));
                (Ty::Char, 1, true, format!("const char {} = {};", name, e))
            }
            _ => (Ty::CharPtr, 1, false, format!("char *{};", name)),
        };
        out.push_str(&text);
        out.push('\n');
        self.globals.push(Sym { name, ty, len, konst });
    }
    fn function(&mut self, f: &Func, attrs: &str, depth: u32, out: &mut String) {
        let ps: Vec<String> = f
            .params
            .iter()
            .enumerate()
            .map(|(k, t)| match t {
                Ty::CharPtr => format!("char *a{}", k),
                Ty::Short => format!("short a{}", k),
                _ => format!("char a{}", k),
            })
            .collect();
        out.push_str(&format!("{}{} {}({}) {{\n", attrs, if f.returns { "char" } else { "void" }, f.name, ps.join(", ")));
        self.scopes.push(f.params.iter().enumerate().map(|(k, t)| Sym { name: format!("a{}", k), ty: *t, len: 4, konst: false }).collect());
        self.cur_returns = f.returns;
        self.cur_name = f.name.clone();
        self.block(depth, "", out);
        if f.returns {
            out.push_str(&format!("  return {};\n", self.lit()));
        }
        self.scopes.pop();
        out.push_str("}\n");
    }
}

pub fn progen(seed: u64) -> Program {
    let mut g = G {
        r: Rng::new(seed ^ 0x9806),
        globals: Vec::new(),
        funcs: Vec::new(),
        macros: Vec::new(),
        scopes: Vec::new(),
        labels: 0,
        in_loop: 0,
        cur_returns: false,
        cur_name: String::new(),
    };
    let mut args: Vec<String> = vec![format!("-O{}", g.r.below(4))];
    if g.r.chance(1, 4) {
        args.push("--insert-code".into());
    }
    if g.r.chance(1, 4) {
        args.push("-W".into());
        args.push("all".into());
    }
    if g.r.chance(1, 8) {
        args.push("--fsigned_char".into());
    }
    let mut out = String::new();
    // templates 5..9 are structural stress shapes; the heavy ones (hundreds of macros or globals, a very
    // long main) cost 20-50 times an ordinary program and are kept rare
    let template = match g.r.below(90) {
        84..=89 => 11,
        80..=83 => 10,
        0..=7 => 5,
        8 | 9 => 6,
        10 | 11 => 7,
        12..=17 => 8,
        18 | 19 => 9,
        _ => 0,
    };
    // macros
    let nmac = if template == 6 { 98 + g.r.below(8) } else { g.r.below(4) };
    for i in 0..nmac {
        let n = format!("M{}", i);
        match g.r.below(6) {
            0 | 1 | 2 => {
                out.push_str(&format!("#define {} {}\n", n, g.r.below(256)));
                g.macros.push((n, 0));
            }
            3 => {
                out.push_str(&format!("#define {}(x) ((x) + {})\n", n, g.r.below(9)));
                g.macros.push((n, 1));
            }
            4 => {
                out.push_str(&format!("#define {}(a, b) ((a) | (b))\n", n));
                g.macros.push((n, 2));
            }
            _ => {
                out.push_str(&format!("#define {} \"{}\"\n", n, g.pick(&WORDS)));
                g.macros.push((n, 9));
            }
        }
    }
    if nmac > 100 && g.r.chance(1, 2) {
        // #undef across the chunks of 100 the macro tables are kept in
        let a = g.r.below(100);
        out.push_str(&format!("#undef M{}\n#undef M100\n#define M100 7\n", a));
        g.macros.retain(|m| m.0 != format!("M{}", a));
    }
    out.push_str("char *sink; unsigned char acc;\n");
    g.globals.push(Sym { name: "acc".into(), ty: Ty::Char, len: 1, konst: false });
    g.globals.push(Sym { name: "sink".into(), ty: Ty::CharPtr, len: 1, konst: false });
    let nglob = if template == 7 { 100 + g.r.usize_below(40) } else { 2 + g.r.usize_below(9) };
    for i in 0..nglob {
        if g.r.chance(1, 9) {
            let open = *g.pick(&["#ifdef M0", "#ifndef NEVER", "#if 1", "#if 0"]);
            out.push_str(open);
            out.push('\n');
            let before = g.globals.len();
            g.global(i, &mut out);
            if open == "#if 0" || (open == "#ifdef M0" && !g.macros.iter().any(|m| m.0 == "M0")) {
                g.globals.truncate(before);
            }
            out.push_str("#endif\n");
        } else {
            g.global(i, &mut out);
        }
    }
    // functions
    if template == 5 {
        // a call chain of random depth whose tail is shared by two interrupt handlers
        let depth = 1 + g.r.below(40);
        out.push_str("void leaf() { acc = 99; }\nvoid tail() { leaf(); acc++; }\n");
        let mut prev = "tail".to_string();
        for i in (1..=depth).rev() {
            out.push_str(&format!("void c{}() {{ {}(); acc = {}; }}\n", i, prev, i % 256));
            prev = format!("c{}", i);
        }
        out.push_str(&format!("void interrupt irqa() {{ {}(); }}\nvoid interrupt irqb() {{ tail(); }}\n", prev));
        if g.r.chance(1, 2) {
            out.push_str("void interrupt irqc() { leaf(); }\n");
        }
    }
    if template == 10 {
        // a call chain with fan-out: every level calls the next one `fan` times (inline expansion copies the
        // callee per call site; call-graph walks see fan^levels paths); optionally 16-bit values nest through it
        let levels = 1 + g.r.below(12);
        // the reference builder walks every path of the call graph (a known finding): keep fan^levels small
        let mut maxfan = 8u64;
        while maxfan > 1 && maxfan.pow(levels as u32) > 20_000 {
            maxfan -= 1;
        }
        let fan = 1 + g.r.below(maxfan);
        let inl = if g.r.chance(1, 2) { "inline " } else { "" };
        out.push_str(&format!("{}void w{}() {{ acc++; }}\n", inl, levels));
        for i in (0..levels).rev() {
            let calls: Vec<String> = (0..fan).map(|_| format!("w{}();", i + 1)).collect();
            out.push_str(&format!("{}void w{}() {{ {} }}\n", inl, i, calls.join(" ")));
        }
        out.push_str("short wide;\nchar narrow(short v) { return v; }\n");
        g.funcs.push(Func { name: "w0".into(), params: vec![], returns: false });
    }
    if template == 11 {
        // counts beyond the usual (thresholds hide behind "more than N of something"): parameters, locals,
        // string literals in one function, labels, an else-if chain, nested blocks
        let n = *g.pick(&[9u64, 12, 17, 33, 65, 130, 260]);
        match g.r.below(6) {
            0 => {
                let n = n.min(33);
                let ps: Vec<String> = (0..n).map(|i| format!("char q{}", i)).collect();
                let sum: Vec<String> = (0..n).map(|i| format!("q{}", i)).collect();
                out.push_str(&format!("char many_params({}) {{ acc = {}; return acc; }}\n", ps.join(", "), sum.join(" ^ ")));
                let args: Vec<String> = (0..n).map(|i| format!("{}", i)).collect();
                out.push_str(&format!("void use_many_params() {{ acc = many_params({}); }}\n", args.join(", ")));
            }
            1 => {
                out.push_str("void many_locals() {\n");
                for i in 0..n {
                    out.push_str(&format!("  char loc{} = {};\n", i, i & 255));
                }
                out.push_str(&format!("  acc = loc0 + loc{};\n}}\n", n - 1));
            }
            2 => {
                out.push_str("void many_literals() {\n");
                for i in 0..n {
                    out.push_str(&format!("  sink = \"{}{}\";\n", g.pick(&WORDS), if i % 3 == 0 { String::new() } else { format!("{}", i) }));
                }
                out.push_str("}\n");
            }
            3 => {
                out.push_str("void many_labels() {\n");
                for i in 0..n {
                    out.push_str(&format!("  l{}: acc++; if (acc == {}) goto l{};\n", i, i & 255, (i * 7) % n));
                }
                out.push_str("}\n");
            }
            4 => {
                out.push_str("void else_if_chain() {\n  if (acc == 0) X = 0;\n");
                for i in 1..n {
                    out.push_str(&format!("  else if (acc == {}) X = {};\n", i & 255, i & 255));
                }
                out.push_str("  else X = 255;\n}\n");
            }
            _ => {
                let n = n.min(65) as usize;
                out.push_str(&format!("void nested_blocks() {{\n  {}acc++;{}\n}}\n", "{ char inner; inner = acc; ".repeat(n), " }".repeat(n)));
            }
        }
    }
    let nfun = 1 + g.r.usize_below(5);
    let mut decls: Vec<(Func, String)> = Vec::new();
    for i in 0..nfun {
        let np = g.r.usize_below(4);
        let params: Vec<Ty> = (0..np)
            .map(|_| match g.r.below(5) {
                0 => Ty::CharPtr,
                1 => Ty::Short,
                _ => Ty::Char,
            })
            .collect();
        let f = Func { name: format!("f{}", i), params, returns: g.r.chance(1, 2) };
        let attrs = match g.r.below(10) {
            0 if np == 0 => "inline ",
            1 => "bank1 ",
            _ => "",
        };
        decls.push((f, attrs.to_string()));
    }
    // prototypes for a random subset, then definitions in shuffled order; only functions already
    // declared (prototype or definition) are callable
    let mut protos = Vec::new();
    for (f, a) in &decls {
        if g.r.chance(1, 3) && a != "inline " {
            let ps: Vec<String> = f
                .params
                .iter()
                .enumerate()
                .map(|(k, t)| match t {
                    Ty::CharPtr => format!("char *a{}", k),
                    Ty::Short => format!("short a{}", k),
                    _ => format!("char a{}", k),
                })
                .collect();
            out.push_str(&format!("{}{} {}({});\n", a, if f.returns { "char" } else { "void" }, f.name, ps.join(", ")));
            protos.push(f.clone());
        }
    }
    // functions that are only ever declared: calling them is fine (the code comes from elsewhere), an
    // inline one has no code to expand
    for i in 0..g.r.below(3) {
        if g.r.chance(1, 2) {
            let returns = g.r.chance(1, 2);
            let inl = if g.r.chance(1, 6) { "inline " } else { "" };
            let np = g.r.usize_below(2);
            out.push_str(&format!("{}{} ext{}({});\n", inl, if returns { "char" } else { "void" }, i, if np == 1 { "char a0" } else { "" }));
            protos.push(Func { name: format!("ext{}", i), params: vec![Ty::Char; np], returns });
        }
    }
    let earlier = std::mem::take(&mut g.funcs);
    g.funcs = protos;
    g.funcs.extend(earlier);
    let mut order: Vec<usize> = (0..decls.len()).collect();
    for i in (1..order.len()).rev() {
        let j = g.r.usize_below(i + 1);
        order.swap(i, j);
    }
    if g.r.chance(1, 3) {
        out.push_str("void interrupt vblank() { acc++; }\n");
    }
    let fdepth = if template == 8 { 4 } else { 2 };
    for &i in &order {
        let (f, a) = decls[i].clone();
        g.function(&f, &a, fdepth, &mut out);
        if !g.funcs.iter().any(|x| x.name == f.name) {
            g.funcs.push(f);
        }
    }
    // main
    out.push_str("void main() {\n");
    g.scopes.push(Vec::new());
    g.cur_returns = false;
    g.cur_name = "main".into();
    let nst = if template == 9 { 60 + g.r.below(60) } else { 1 + g.r.below(8) };
    for _ in 0..nst {
        g.stmt(if template == 9 { 1 } else { 2 }, "  ", &mut out);
    }
    if let Some(m) = g.macros.iter().find(|m| m.1 == 9).cloned() {
        out.push_str(&format!("  sink = {};\n", m.0));
    }
    if template == 10 {
        let d = 1 + g.r.usize_below(18);
        out.push_str(&format!("  w0();\n  wide = {}wide{};\n", "narrow(".repeat(d), ")".repeat(d)));
    }
    g.scopes.pop();
    out.push_str("}\n");
    if g.r.chance(1, 5) {
        let i = g.globals.len();
        g.global(i + 500, &mut out);
    }
    Program { name: format!("progen/{:016x}", seed), source: out.into_bytes(), args, includes: Vec::new() }
}

/// Size dimension: a valid program of 50-400 KB (a graphics table, hundreds of functions, a very long
/// function, hundreds of initialised globals). Everything else in the workload is below 16 KiB; limits,
/// budgets and buffers that only matter for large inputs are behind this generator.
pub fn big(seed: u64) -> Program {
    let mut r = Rng::new(seed ^ 0xb16);
    let mut out = String::new();
    let shape = r.below(8);
    match shape {
        7 => {
            // macros multiplying each other: level i uses level i+1 `fan` times ("billion laughs")
            let levels = 2 + r.below(5);
            let fan = *r.pick(&[2u64, 10, 30, 100]);
            // a long operator chain is another subject (stack depth): above 300 terms the leaves do not chain
            let leaf = if fan.pow(levels as u32) <= 300 { "1 +" } else { "0" };
            for i in 1..=levels {
                let body: Vec<String> = (0..fan).map(|_| if i == levels { leaf.to_string() } else { format!("M{}", i + 1) }).collect();
                out.push_str(&format!("#define M{} {}\n", i, body.join(" ")));
            }
            let uses: Vec<String> = (1..=levels).map(|i| format!("M{}", i)).collect();
            out.push_str(&format!("char x;\nvoid main() {{ x = {} 1; }}\n", uses.join(" ")));
        }
        5 => {
            // macros with many parameters, several of them (the preprocessor compiles them into one regex set)
            let (k, n) = *r.pick(&[(1u64, 100u64), (2, 120), (1, 127), (1, 128), (1, 300), (1, 900), (2, 1000), (10, 110), (16, 50)]);
            for j in 0..k {
                let ps: Vec<String> = (0..n).map(|i| format!("p{}", i)).collect();
                out.push_str(&format!("#define M{}({}) (p0 + p{})\n", j, ps.join(","), n - 1));
            }
            let args: Vec<String> = (0..n).map(|i| format!("{}", i & 7)).collect();
            out.push_str(&format!("char x;\nvoid main() {{ x = M0({}); }}\n", args.join(",")));
        }
        6 => {
            // very long macro and parameter names
            let n = *r.pick(&[1_000usize, 30_000, 150_000, 200_000, 400_000]);
            let a = "A".repeat(n);
            let b = "B".repeat(n);
            match r.below(3) {
                0 => out.push_str(&format!("#define {} 1\n#define {} 2\nchar x;\nvoid main() {{ x = {}; }}\n", a, b, a)),
                1 => out.push_str(&format!("#define F({}) {} + 1\nchar x;\nvoid main() {{ x = F(2); }}\n", a, a)),
                _ => out.push_str(&format!("char {};\nvoid main() {{ {} = 1; }}\n", a, a)),
            }
        }
        0 | 1 => {
            let n = *r.pick(&[8_000u64, 20_000, 40_000, 48_000, 64_000]);
            out.push_str("const unsigned char gfx[] = {\n");
            for i in 0..n / 16 {
                let row: Vec<String> = (0..16).map(|j| format!("0x{:02x}", (i * 7 + j + seed) & 255)).collect();
                out.push_str(&row.join(", "));
                out.push_str(if i + 1 == n / 16 { "\n" } else { ",\n" });
            }
            out.push_str("};\nchar x;\nvoid main() { x = gfx[X]; }\n");
        }
        2 => {
            let n = 400 + r.below(1200);
            out.push_str("char g, h;\n");
            for i in 0..n {
                out.push_str(&format!("void f{}() {{ g = g + {}; if (g) h++; }}\n", i, i & 255));
            }
            out.push_str(&format!("void main() {{ f0(); f{}(); }}\n", n - 1));
        }
        3 => {
            let n = 1500 + r.below(3000);
            out.push_str("char g, h;\nvoid main() {\n");
            for i in 0..n {
                out.push_str(&format!("  g = g + {}; if (g == {}) h++;\n", i & 255, (i * 3) & 255));
            }
            out.push_str("}\n");
        }
        _ => {
            let n = 300 + r.below(500);
            for i in 0..n {
                out.push_str(&format!("const char t{}[] = \"string number {}\";\nchar v{};\n", i, i, i));
            }
            out.push_str("char *sink;\nvoid main() {\n");
            for i in 0..n {
                out.push_str(&format!("  sink = t{}; v{} = sink[Y];\n", i, i % 100));
            }
            out.push_str("}\n");
        }
    }
    let args = vec![format!("-O{}", r.below(4))];
    Program { name: format!("big/{:016x}", seed), source: out.into_bytes(), args, includes: Vec::new() }
}
