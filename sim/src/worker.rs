//! Worker process: executes work items sent by the parent, one world at a time.
//!
//! Protocol (lines on the duplicated stdout; fd 1/2 themselves are redirected to the diag capture):
//!   `S <tag>`   before each world (so that the parent can attribute a dead worker)
//!   `V <json>`  a violation with its self-contained replay worlds
//!   `R <json>`  end of a work item with aggregated statistics

use crate::corpus::Program;
use crate::gen;
use crate::job::{run_world, JobResult, Obs, WorkerEnv, WorldResult};
use crate::oracle::{self, SrcLines, Violation};
use crate::rng::{hash_bytes, mix, Fnv};
use crate::world::{JobSpec, World};
use serde::{Deserialize, Serialize};
use std::collections::BTreeMap;
use std::io::{BufRead, Write};
use std::sync::Arc;
use std::time::Duration;

#[derive(Clone, Debug, Serialize, Deserialize)]
#[serde(tag = "op")]
pub enum Item {
    C05Seeds { base: u64, from: u64, to: u64, digests: bool },
    C05Keys { base: u64, prog: usize, k_from: u64, k_to: u64 },
    C16Enum { prog: usize, kind: String, idx: Vec<usize> },
    /// generated programs (progen), plain and with one fault
    C16Progen { base: u64, from: u64, to: u64 },
    /// every directed delivery variant of one program (both properties)
    Delivery { prop: String, prog: usize },
    C16Seeds { base: u64, from: u64, to: u64, digests: bool },
    /// explicit worlds run in order in this process (replay, minimisation)
    Worlds { prop: String, worlds: Vec<World>, wall_s: u64 },
    Exit,
}

#[derive(Clone, Debug, Serialize, Deserialize)]
pub struct VMsg {
    pub tag: String,
    pub prop: String,
    pub class: String,
    pub key: String,
    pub detail: String,
    pub worlds: Vec<World>,
    pub job_label: String,
    #[serde(default)]
    pub job_key: u64,
}

#[derive(Clone, Debug, Default, Serialize, Deserialize)]
pub struct RMsg {
    pub stats: BTreeMap<String, u64>,
    pub digests: Vec<(String, u64)>,
    /// C05: (request key, condition hash, nontrivial)
    pub keys: Vec<(u64, u64, bool)>,
    /// C05: (request key, hash of the canonical reference observation) for cross-process comparison
    pub refs: Vec<(u64, u64)>,
    /// C05: where the request of a reference came from: (request key, world tag, job index)
    #[serde(default)]
    pub ref_origin: Vec<(u64, String, usize)>,
    /// C16: hashes of delivered byte strings on which at least one fault fired
    pub delivered: Vec<u64>,
    pub samples: Vec<String>,
    /// violations whose world was not sent (already sent often enough): key -> count
    pub suppressed: BTreeMap<String, u64>,
    pub outcomes: Vec<String>,
    /// C05 reach measure: (key-set hash, iteration-order hash, map size), deduplicated per item
    #[serde(default)]
    pub map_orders: Vec<(u64, u64, u8)>,
    /// explicit worlds only: per world, the run-length encoded schedule decisions actually taken and the event digest
    #[serde(default)]
    pub traces: Vec<(Vec<(u8, u32)>, u64)>,
    /// explicit worlds only: (world index, job index, request key, observation hash)
    #[serde(default)]
    pub obs: Vec<(usize, usize, u64, u64)>,
    /// C05: Debug/Trace references computed in this item: (origin world tag, job index, log level, reference tag,
    /// hash of the reference world's observation as `last_obs_hash` computes it in a fresh process)
    #[serde(default)]
    pub dbg_refs: Vec<(String, usize, u8, String, u64)>,
}

/// Observation hash of a job run in a world of log level `level`: above Info the Debug/Trace records count.
pub fn obs_hash_at(obs: &Obs, dbg: &(u64, u32, String), level: u8) -> u64 {
    if level > 3 {
        mix(obs.hash(), dbg.0)
    } else {
        obs.hash()
    }
}

/// wall-clock backstop per job during the search (normal jobs take 0.3-50 ms); suspects are re-run alone with 200 s
pub const WALL_SEARCH_S: u64 = 10;

pub struct Worker {
    corpus: Vec<Program>,
    env: Arc<WorkerEnv>,
    out: std::fs::File,
    refs: BTreeMap<u64, (Obs, World)>,
    dbgrefs: BTreeMap<u64, ((u64, u32, String), World)>,
    src: SrcLines,
    sent: BTreeMap<String, u32>,
    wall: Duration,
}

fn bump(m: &mut BTreeMap<String, u64>, k: &str, n: u64) {
    *m.entry(k.to_string()).or_insert(0) += n;
}

impl Worker {
    pub fn new(corpus: Vec<Program>, dir: String, out: std::fs::File) -> Worker {
        Worker {
            corpus,
            env: Arc::new(WorkerEnv { dir }),
            out,
            refs: BTreeMap::new(),
            dbgrefs: BTreeMap::new(),
            src: SrcLines::new(),
            sent: BTreeMap::new(),
            wall: Duration::from_secs(WALL_SEARCH_S),
        }
    }

    fn say(&mut self, line: &str) {
        let _ = self.out.write_all(line.as_bytes());
        let _ = self.out.write_all(b"\n");
    }

    fn run(&mut self, tag: &str, w: &World) -> WorldResult {
        self.say(&format!("S {}", tag));
        let r = run_world(w, &self.env, self.wall);
        if let Some((t, j)) = r.wall_hang {
            // a thread is stuck without reaching a tick: report and die (the parent confirms with a longer budget)
            let v = VMsg {
                tag: tag.to_string(),
                prop: w.prop.clone(),
                class: "HANGWALL".into(),
                key: format!("HANG|wall|{}", crate::job::last_site_of(t)),
                detail: format!("thread {} job {} exceeded the wall-clock backstop of {:?} per job; last tick site {}", t, j, self.wall, crate::job::last_site_of(t)),
                worlds: vec![w.clone()],
                job_label: w.jobs.get(j).map(|x| x.label.clone()).unwrap_or_default(),
                job_key: w.jobs.get(j).map(|x| x.key()).unwrap_or(0),
            };
            self.say(&format!("V {}", serde_json::to_string(&v).unwrap()));
            std::process::exit(3);
        }
        r
    }

    fn world_stats(&self, w: &World, r: &WorldResult, rm: &mut RMsg) -> u64 {
        // statistics + event digest of one world
        let mut h = Fnv::new();
        for (t, c) in &r.sched.trace {
            h.write(&[*t]);
            h.write_u64(*c as u64);
        }
        h.write_u64(r.sched.points);
        bump(&mut rm.stats, "worlds", 1);
        if w.env != 0 {
            bump(&mut rm.stats, "dim.environment_not_baseline", 1);
        }
        if w.stdio != 0 {
            bump(&mut rm.stats, "fault.process_stdout_or_stderr_broken", 1);
        }
        if w.log_level > 3 {
            bump(&mut rm.stats, "dim.log_level_debug_or_trace", 1);
        }
        bump(&mut rm.stats, "jobs", w.jobs.len() as u64);
        bump(&mut rm.stats, "sched.points", r.sched.points);
        bump(&mut rm.stats, "sched.decisions", r.sched.decisions);
        bump(&mut rm.stats, "sched.switches", r.sched.switches);
        if r.sched.switches > 0 {
            bump(&mut rm.stats, "worlds.with_preemption", 1);
            let mut th = Fnv::new();
            for (t, c) in &r.sched.trace {
                th.write(&[*t]);
                th.write_u64(*c as u64);
            }
            rm.digests.push(("trace".into(), th.finish()));
        }
        for (ji, jr) in r.jobs.iter().enumerate() {
            let Some(jr) = jr else { continue };
            let js = &w.jobs[ji];
            h.write_u64(jr.obs.hash());
            h.write_u64(jr.ticks);
            for c in &jr.rlog.chunks {
                h.write_u64(*c as u64);
            }
            for c in &jr.wlog.chunks {
                h.write_u64(*c as u64);
            }
            for c in jr.rlog.eintr_calls.iter().chain(&jr.wlog.eintr_calls) {
                h.write_u64(*c as u64);
            }
            bump(&mut rm.stats, "ticks", jr.ticks);
            bump(&mut rm.stats, "io.read_calls", jr.rlog.calls as u64);
            bump(&mut rm.stats, "io.write_calls", jr.wlog.calls as u64);
            bump(&mut rm.stats, "fault.short_read", jr.rlog.short as u64);
            bump(&mut rm.stats, "fault.eintr_read", jr.rlog.eintr_calls.len() as u64);
            bump(&mut rm.stats, "fault.read_error", jr.rlog.error_fired as u64);
            bump(&mut rm.stats, "fault.short_write", jr.wlog.short as u64);
            bump(&mut rm.stats, "fault.eintr_write", jr.wlog.eintr_calls.len() as u64);
            bump(&mut rm.stats, "fault.write_error", jr.wlog.error_fired as u64);
            if matches!(&jr.obs.outcome, crate::job::Outcome::Panic { file, .. } if file == crate::job::INJECTED) {
                bump(&mut rm.stats, "fault.reader_or_sink_unwinds_the_compilation", 1);
            }
            bump(&mut rm.stats, "probe.split_utf8", jr.rlog.split_utf8 as u64);
            bump(&mut rm.stats, "probe.split_crlf", jr.rlog.split_crlf as u64);
            bump(&mut rm.stats, "probe.split_splice", jr.rlog.split_splice as u64);
            bump(&mut rm.stats, "probe.order_tie", jr.order_tie as u64);
            for mo in &jr.map_orders {
                if !rm.map_orders.contains(mo) {
                    rm.map_orders.push(*mo);
                }
            }
            bump(&mut rm.stats, "probe.getrandom_calls", jr.getrandom_calls as u64);
            bump(&mut rm.stats, "probe.wall_clock_reads_by_code_under_test", jr.clock_reads as u64);
            bump(&mut rm.stats, "probe.getpid_reads_by_code_under_test", jr.pid_reads as u64);
            for s in &jr.switched_out_at {
                bump(&mut rm.stats, &format!("probe.preempted_at.{}", s), 1);
            }
            for f in &js.faults {
                let kind = f.split(|c| c == '(' || c == ' ').next().unwrap_or(f);
                bump(&mut rm.stats, &format!("fault.{}", kind), 1);
            }
            if jr.ticks * 2 > (if js.fuel > 0 { js.fuel } else { js.default_fuel() }) {
                bump(&mut rm.stats, "probe.fuel_over_half", 1);
            }
            let oc = match &jr.obs.outcome {
                crate::job::Outcome::Ok => "Ok".to_string(),
                crate::job::Outcome::Err { variant, .. } => format!("Err.{}", variant),
                crate::job::Outcome::Panic { .. } => "Panic".to_string(),
                crate::job::Outcome::Hang { memory, .. } => if *memory { "MemGrow".to_string() } else { "Hang".to_string() },
                crate::job::Outcome::ArgsRejected(_) => "ArgsRejected".to_string(),
            };
            bump(&mut rm.stats, &format!("outcome.{}", oc), 1);
            for (s, n) in &jr.sites {
                bump(&mut rm.stats, &format!("ticks.{}", s), *n);
            }
        }
        h.finish()
    }

    fn report(&mut self, tag: &str, prop: &str, v: Violation, worlds: Vec<World>, label: &str, job_key: u64, rm: &mut RMsg) {
        let n = self.sent.entry(v.key.clone()).or_insert(0);
        *n += 1;
        if *n > 3 {
            *rm.suppressed.entry(v.key.clone()).or_insert(0) += 1;
            return;
        }
        let m = VMsg {
            tag: tag.to_string(),
            prop: prop.to_string(),
            class: v.class,
            key: v.key,
            detail: v.detail,
            worlds,
            job_label: label.to_string(),
            job_key,
        };
        self.say(&format!("V {}", serde_json::to_string(&m).unwrap()));
    }

    /// reference observation of a compilation request: canonical solo world (zero key, whole-buffer
    /// reader, unbounded writer, fresh thread), computed once per worker process and request.
    fn reference(&mut self, job: &JobSpec, origin: (&str, usize), rm: &mut RMsg) -> (Obs, World) {
        let key = job.key();
        if let Some(x) = self.refs.get(&key) {
            return x.clone();
        }
        let mut cj = job.clone();
        cj.reader = crate::simio::StreamSpec::canonical();
        cj.writer = crate::simio::StreamSpec::canonical();
        cj.label = format!("reference: {}", job.label);
        let w = World::solo("C05", cj);
        let r = self.run(&format!("ref:{:016x}", key), &w);
        let obs = r.jobs[0].as_ref().unwrap().obs.clone();
        bump(&mut rm.stats, "references", 1);
        rm.refs.push((key, obs.hash()));
        rm.ref_origin.push((key, origin.0.to_string(), origin.1));
        if self.refs.len() > 4000 {
            self.refs.clear();
        }
        self.refs.insert(key, (obs.clone(), w.clone()));
        (obs, w)
    }

    /// reference Debug/Trace log text of a request at a log level above Info: canonical solo world run at
    /// that level (digest, records, head)
    fn dbg_reference(&mut self, job: &JobSpec, level: u8, origin: (&str, usize), rm: &mut RMsg) -> ((u64, u32, String), World) {
        let key = mix(job.key(), 0xdb6 + level as u64);
        if let Some(x) = self.dbgrefs.get(&key) {
            return x.clone();
        }
        let mut cj = job.clone();
        cj.reader = crate::simio::StreamSpec::canonical();
        cj.writer = crate::simio::StreamSpec::canonical();
        cj.label = format!("reference at log level {}: {}", level, job.label);
        let mut w = World::solo("C05", cj);
        w.log_level = level;
        let rtag = format!("dbgref:{:016x}", key);
        let r = self.run(&rtag, &w);
        let jr0 = r.jobs[0].as_ref().unwrap();
        let d = jr0.dbg.clone();
        {
            // what a pristine process must observe for this world (same formula as parent::last_obs_hash)
            let mut h = Fnv::new();
            h.write_u64(0);
            h.write_u64(obs_hash_at(&jr0.obs, &jr0.dbg, level));
            rm.dbg_refs.push((origin.0.to_string(), origin.1, level, rtag, h.finish()));
        }
        if self.dbgrefs.len() > 2000 {
            self.dbgrefs.clear();
        }
        self.dbgrefs.insert(key, (d.clone(), w.clone()));
        (d, w)
    }

    fn check_c05_world(&mut self, tag: &str, w: &World, r: &WorldResult, rm: &mut RMsg) {
        for (ji, jr) in r.jobs.iter().enumerate() {
            let Some(jr) = jr else { continue };
            let js = &w.jobs[ji];
            if w.log_level > 3 && !jr.rlog.error_fired && !jr.wlog.error_fired {
                // what RUST_LOG=debug|trace shows is a diagnostic too
                bump(&mut rm.stats, "probe.debug_log_compared", 1);
                let (d, dw) = self.dbg_reference(js, w.log_level, (tag, ji), rm);
                if let Some(v) = oracle::check_debug_log(&d, &jr.dbg) {
                    let label = js.label.clone();
                    self.report(tag, "C05", v, vec![dw, w.clone()], &label, js.key(), rm);
                    bump(&mut rm.stats, "violations", 1);
                }
            }
            let (refobs, refworld) = self.reference(js, (tag, ji), rm);
            // condition hash: everything that may legitimately differ between two observations
            let t = w.threads.iter().position(|t| t.jobs.contains(&ji)).unwrap_or(0);
            let pos = w.threads[t].jobs.iter().position(|x| *x == ji).unwrap_or(0);
            let mut ch = Fnv::new();
            ch.write_str(&w.threads[t].hash_key);
            ch.write_u64(pos as u64);
            for p in &w.threads[t].jobs[..pos] {
                ch.write_u64(w.jobs[*p].key());
            }
            ch.write_str(&format!("{:?}{:?}", js.reader, js.writer));
            ch.write_u64(r.sched.switches);
            let nontrivial = jr.max_map >= 2;
            rm.keys.push((jr.key, ch.finish(), nontrivial));
            if pos > 0 {
                bump(&mut rm.stats, "probe.job_with_history", 1);
                let prev = &r.jobs[w.threads[t].jobs[pos - 1]];
                if let Some(p) = prev {
                    match p.obs.outcome {
                        crate::job::Outcome::Err { .. } => bump(&mut rm.stats, "probe.history_after_err", 1),
                        crate::job::Outcome::Panic { .. } => bump(&mut rm.stats, "probe.history_after_panic", 1),
                        _ => {}
                    }
                    if p.rlog.error_fired || p.wlog.error_fired {
                        bump(&mut rm.stats, "probe.history_after_fault_abort", 1);
                    }
                }
            }
            if jr.obs.extra.matches("\", \"").count() >= 1 {
                bump(&mut rm.stats, "probe.two_or_more_literals", 1);
            }
            // with the process's stdout/stderr broken the printed diagnostics are lost by design: everything else
            // must still be equal
            let patched;
            let jr = if w.stdio != 0 {
                let mut c = jr.clone();
                c.obs.diag = refobs.diag.clone();
                patched = c;
                &patched
            } else {
                jr
            };
            if let Some(v) = oracle::check_c05(&refobs, jr) {
                let label = js.label.clone();
                self.report(tag, "C05", v, vec![refworld, w.clone()], &label, js.key(), rm);
                bump(&mut rm.stats, "violations", 1);
            }
        }
    }

    fn check_c16_world(&mut self, tag: &str, w: &World, r: &WorldResult, rm: &mut RMsg) {
        for (ji, jr) in r.jobs.iter().enumerate() {
            let Some(jr) = jr else { continue };
            let js = &w.jobs[ji];
            let fired = !js.faults.is_empty()
                || jr.rlog.error_fired
                || jr.wlog.error_fired
                || jr.rlog.short > 0
                || jr.wlog.short > 0
                || !jr.rlog.eintr_calls.is_empty()
                || !jr.wlog.eintr_calls.is_empty();
            if fired {
                let mut h = Fnv::new();
                h.write(&js.source.0);
                h.write_u64(js.inc_hash());
                rm.delivered.push(h.finish());
            }
            if let Some(v) = oracle::check_c16(js, jr, &mut self.src) {
                let label = js.label.clone();
                self.report(tag, "C16", v, vec![w.clone()], &label, js.key(), rm);
                bump(&mut rm.stats, "violations", 1);
            }
        }
    }

    fn sample(&self, w: &World, r: &WorldResult) -> String {
        let j = w.jobs.len() - 1;
        let js = &w.jobs[j];
        let oc = r.jobs[j].as_ref().map(|x| x.obs.outcome.short()).unwrap_or_default();
        let src = String::from_utf8_lossy(&js.source.0);
        let head: String = src.chars().take(160).collect();
        format!(
            "seed={} threads={} jobs={} sched={:?} last_job={{label:{:?}, args:{:?}, faults:{:?}, reader:{:?}, writer:{:?}, source:{:?}}} -> {}",
            w.seed,
            w.threads.len(),
            w.jobs.len(),
            match &w.sched {
                crate::sched::SchedSpec::Explicit(_) => "Explicit".to_string(),
                s => format!("{:?}", s),
            },
            js.label,
            js.args,
            js.faults,
            js.reader,
            js.writer,
            head,
            oc.chars().take(160).collect::<String>()
        )
    }

    pub fn handle(&mut self, item: Item) -> bool {
        let mut rm = RMsg::default();
        match item {
            Item::Exit => return false,
            Item::C05Seeds { base, from, to, digests } => {
                for i in from..to {
                    let seed = mix(base, i);
                    let (w, d) = gen::c05_world(seed, &self.corpus);
                    let tag = format!("c05:{}", i);
                    let r = self.run(&tag, &w);
                    let dg = self.world_stats(&w, &r, &mut rm);
                    for (name, on) in [("keys", d.keys), ("history", d.history), ("interleave", d.interleave), ("rdeliv", d.rdeliv), ("wdeliv", d.wdeliv), ("hard", d.hard)] {
                        if on {
                            bump(&mut rm.stats, &format!("dim.{}", name), 1);
                        }
                    }
                    if digests {
                        self.say(&format!("D {} {}", tag, dg));
                    }
                    self.check_c05_world(&tag, &w, &r, &mut rm);
                    if i == from && rm.samples.len() < 2 {
                        rm.samples.push(self.sample(&w, &r));
                    }
                }
            }
            Item::C05Keys { base, prog, k_from, k_to } => {
                for k in k_from..k_to {
                    let w = gen::c05_key_world(base, prog, k, &self.corpus);
                    let tag = format!("c05k:{}:{}", prog, k);
                    let r = self.run(&tag, &w);
                    self.world_stats(&w, &r, &mut rm);
                    bump(&mut rm.stats, "dim.keys", 1);
                    self.check_c05_world(&tag, &w, &r, &mut rm);
                }
            }
            Item::C16Progen { base, from, to } => {
                for i in from..to {
                    let w = gen::c16_progen_world(base, i);
                    let tag = format!("c16p:{}", i);
                    let r = self.run(&tag, &w);
                    self.world_stats(&w, &r, &mut rm);
                    self.check_c16_world(&tag, &w, &r, &mut rm);
                    if i == from {
                        rm.samples.push(self.sample(&w, &r));
                    }
                }
            }
            Item::Delivery { prop, prog } => {
                for v in 0..gen::DELIVERY_VARIANTS {
                    let w = gen::delivery_world(&prop, &self.corpus, prog, v);
                    let tag = format!("dlv:{}:{}", prog, v);
                    let r = self.run(&tag, &w);
                    self.world_stats(&w, &r, &mut rm);
                    if prop == "C05" {
                        bump(&mut rm.stats, "dim.directed_delivery", 1);
                        self.check_c05_world(&tag, &w, &r, &mut rm);
                    } else {
                        self.check_c16_world(&tag, &w, &r, &mut rm);
                    }
                }
            }
            Item::C16Enum { prog, kind, idx } => {
                for i in idx {
                    let w = gen::c16_enum_world(&self.corpus, prog, &kind, i);
                    let tag = format!("c16e:{}:{}:{}", prog, kind, i);
                    let r = self.run(&tag, &w);
                    self.world_stats(&w, &r, &mut rm);
                    self.check_c16_world(&tag, &w, &r, &mut rm);
                    if rm.samples.is_empty() {
                        rm.samples.push(self.sample(&w, &r));
                    }
                }
            }
            Item::C16Seeds { base, from, to, digests } => {
                for i in from..to {
                    let seed = mix(base ^ 0xC16, i);
                    let w = gen::c16_world(seed, &self.corpus);
                    let tag = format!("c16:{}", i);
                    let r = self.run(&tag, &w);
                    let dg = self.world_stats(&w, &r, &mut rm);
                    if digests {
                        self.say(&format!("D {} {}", tag, dg));
                    }
                    self.check_c16_world(&tag, &w, &r, &mut rm);
                    if i == from {
                        rm.samples.push(self.sample(&w, &r));
                    }
                }
            }
            Item::Worlds { prop, worlds, wall_s } => {
                if wall_s > 0 {
                    self.wall = Duration::from_secs(wall_s);
                }
                // explicit worlds: evaluate the property's oracle over the whole list
                let mut all: Vec<(usize, usize, JobResult)> = Vec::new();
                for (wi, w) in worlds.iter().enumerate() {
                    let tag = format!("w:{}", wi);
                    let r = self.run(&tag, w);
                    let dg = self.world_stats(w, &r, &mut rm);
                    rm.digests.push((tag.clone(), dg));
                    rm.traces.push((r.sched.trace.clone(), dg));
                    if r.sched.trace_mismatch {
                        bump(&mut rm.stats, "replay.trace_mismatch", 1);
                    }
                    if prop == "C16" {
                        self.check_c16_world(&tag, w, &r, &mut rm);
                    }
                    for (ji, jr) in r.jobs.iter().enumerate() {
                        if let Some(jr) = jr {
                            rm.obs.push((wi, ji, jr.key, obs_hash_at(&jr.obs, &jr.dbg, w.log_level)));
                            if std::env::var("SIMC_SHOW_PRE").is_ok() {
                                rm.outcomes.push(format!("diag: {}", jr.obs.diag));
                            }
                            rm.outcomes.push(format!("world {} job {} [{}]: {}", wi, ji, w.jobs[ji].label, jr.obs.outcome.short().chars().take(300).collect::<String>()));
                            all.push((wi, ji, jr.clone()));
                        }
                    }
                }
                if prop == "C05" {
                    // group by request key; the first benign, canonically delivered observation is the reference
                    let mut refs: BTreeMap<u64, Obs> = BTreeMap::new();
                    for (wi, ji, jr) in &all {
                        let js = &worlds[*wi].jobs[*ji];
                        if js.reader.benign() && js.writer.benign() && worlds[*wi].stdio == 0 && !refs.contains_key(&jr.key) {
                            refs.insert(jr.key, jr.obs.clone());
                        }
                    }
                    for (wi, ji, jr) in &all {
                        if let Some(reference) = refs.get(&jr.key) {
                            let mut jr = jr.clone();
                            if worlds[*wi].stdio != 0 {
                                jr.obs.diag = reference.diag.clone();
                            }
                            let jr = &jr;
                            if let Some(v) = oracle::check_c05(reference, jr) {
                                let label = worlds[*wi].jobs[*ji].label.clone();
                                self.sent.clear();
                                self.report(&format!("w:{}", wi), "C05", v, worlds.clone(), &label, jr.key, &mut rm);
                                bump(&mut rm.stats, "violations", 1);
                            }
                        }
                    }
                    // Debug/Trace log text: same grouping, per log level
                    let mut drefs: BTreeMap<(u64, u8), (u64, u32, String)> = BTreeMap::new();
                    for (wi, ji, jr) in &all {
                        let (js, lv) = (&worlds[*wi].jobs[*ji], worlds[*wi].log_level);
                        if lv > 3 && js.reader.benign() && js.writer.benign() && !drefs.contains_key(&(jr.key, lv)) {
                            drefs.insert((jr.key, lv), jr.dbg.clone());
                        }
                    }
                    for (wi, ji, jr) in &all {
                        let lv = worlds[*wi].log_level;
                        if jr.rlog.error_fired || jr.wlog.error_fired {
                            continue;
                        }
                        if let Some(reference) = drefs.get(&(jr.key, lv)) {
                            if let Some(v) = oracle::check_debug_log(reference, &jr.dbg) {
                                let label = worlds[*wi].jobs[*ji].label.clone();
                                self.sent.clear();
                                self.report(&format!("w:{}", wi), "C05", v, worlds.clone(), &label, jr.key, &mut rm);
                                bump(&mut rm.stats, "violations", 1);
                            }
                        }
                    }
                }
                self.sent.clear();
                self.wall = Duration::from_secs(WALL_SEARCH_S);
            }
        }
        let line = format!("R {}", serde_json::to_string(&rm).unwrap());
        self.say(&line);
        true
    }
}

pub fn worker_main(root: &std::path::Path, dir: &str) -> i32 {
    let _ = std::fs::create_dir_all(dir);
    let cap = format!("{}/diag.out", dir);
    crate::simenv::set_capture_path(&cap);
    let out = match crate::simenv::redirect_stdio(&cap) {
        Ok(f) => f,
        Err(e) => {
            eprintln!("cannot redirect stdio: {}", e);
            return 2;
        }
    };
    // the working directory of the compiler process: an empty directory
    let cwd = format!("{}/cwd", dir);
    let _ = std::fs::create_dir_all(&cwd);
    let _ = std::fs::create_dir_all(format!("{}/cwd2", dir));
    let _ = std::env::set_current_dir(&cwd);
    crate::job::install_panic_hook();
    crate::job::install_logger();
    let corpus = match crate::corpus::load_corpus(root) {
        Ok(c) => c,
        Err(e) => {
            let mut out = out;
            let _ = writeln!(out, "E {}", e);
            return 2;
        }
    };
    let mut w = Worker::new(corpus, dir.to_string(), out);
    w.say("READY");
    let stdin = std::io::stdin();
    let mut line = String::new();
    loop {
        line.clear();
        match stdin.lock().read_line(&mut line) {
            Ok(0) | Err(_) => break,
            Ok(_) => {}
        }
        let item: Item = match serde_json::from_str(line.trim()) {
            Ok(i) => i,
            Err(e) => {
                w.say(&format!("E bad item: {}", e));
                continue;
            }
        };
        if !w.handle(item) {
            break;
        }
    }
    let _ = hash_bytes(b"");
    0
}
