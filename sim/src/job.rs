//! Running jobs and worlds: real cc6502 code on baton-scheduled caller threads.

use crate::rng::{hash_bytes, Fnv};
use crate::sched::{Sched, SchedReport};
use crate::simenv;
use crate::simio::{IoLog, SimReader, SimWriter};
use crate::world::{from_hex, IncKind, JobSpec, World};
use cc6502::compile::{compile, CompilerState};
use cc6502::error::Error;
use cc6502::Args;
use clap::Parser;
use std::cell::RefCell;
use std::io::Write;
use std::panic::{catch_unwind, resume_unwind, AssertUnwindSafe};
use std::sync::atomic::{AtomicUsize, Ordering};
use std::sync::{Arc, Mutex};
use std::time::Duration;

// ---------------------------------------------------------------- per-thread job context

struct Ctx {
    sched: Arc<Sched>,
    tid: usize,
    multi: bool,
    fuel: u64,
    replace_cap: u64,
    replace_ticks: u64,
    live0: isize,
    mem_cap: isize,
    mem_exceeded: bool,
    ticks: u64,
    sites: Vec<(&'static str, u64)>,
    diag: Vec<u8>,
    last_site: &'static str,
    switched_out_at: Vec<&'static str>,
}

thread_local! {
    static CTX: RefCell<Option<Ctx>> = const { RefCell::new(None) };
    static LAST_PANIC: RefCell<Option<(String, u32, String)>> = const { RefCell::new(None) };
    static DECLS: RefCell<Option<Decls>> = const { RefCell::new(None) };
    static LOGBUF: RefCell<String> = const { RefCell::new(String::new()) };
    /// Debug/Trace records of the `log` facade (only when the world's log level admits them): running digest of
    /// all the text, number of records, and the first 32 KiB for reports
    static INCDIR: RefCell<String> = const { RefCell::new(String::new()) };
    static DBGBUF: RefCell<(Fnv, u32, String)> = RefCell::new((Fnv::new(), 0, String::new()));
    /// (file name as an error would name it, number of lines delivered) for the running job
    static FILE_LINES: RefCell<Vec<(String, u32)>> = const { RefCell::new(Vec::new()) };
}

struct FuelExhausted(&'static str, bool);

/// a job whose live heap grows beyond this between two ticks is stopped at that tick (unbounded growth)
pub const MEM_CAP_BYTES: isize = 64 << 20;

// last tick site per caller thread, readable by the simulator thread when the wall-clock backstop fires
// (pointer << 16 | length) of the site literal in ONE word: a reader can never see a half-published site (a job
// stuck in a loop that publishes all the time - the builder writing without end - used to be read as "none" now and
// then, which made the key of a known hang look like a new one)
static LAST_SITE: [AtomicUsize; 8] = [const { AtomicUsize::new(0) }; 8];
fn publish_site(tid: usize, site: &'static str) {
    if tid < 8 {
        LAST_SITE[tid].store(((site.as_ptr() as usize) << 16) | (site.len() & 0xffff), Ordering::Release);
    }
}
pub fn last_site_of(tid: usize) -> String {
    if tid >= 8 {
        return "?".into();
    }
    let v = LAST_SITE[tid].load(Ordering::Acquire);
    let (ptr, len) = (v >> 16, v & 0xffff);
    if len == 0 || ptr == 0 {
        return "none".into();
    }
    // sites are &'static str literals of the code under test
    let b = unsafe { std::slice::from_raw_parts(ptr as *const u8, len) };
    String::from_utf8_lossy(b).to_string()
}

/// scheduling point used by the simulated reader / writer and by `tick`
/// Called by the simulated reader and writer: `site` becomes the last site of the job (not a tick: no fuel is
/// spent), so that a job stuck while it reads or emits - e.g. in a loop of the builder, which has no tick
/// hooks - is attributed to "input.read" / "output.write" rather than to the last tick of the generator.
pub fn io_point(site: &'static str) {
    CTX.with(|c| {
        let mut g = c.borrow_mut();
        if let Some(ctx) = g.as_mut() {
            ctx.last_site = site;
            publish_site(ctx.tid, site);
        }
    });
    sched_point();
}

pub fn sched_point() {
    CTX.with(|c| {
        let mut g = c.borrow_mut();
        if let Some(ctx) = g.as_mut() {
            if ctx.multi {
                let Ctx { sched, tid, diag, last_site, switched_out_at, .. } = ctx;
                sched.yield_point(*tid, || {
                    diag.extend_from_slice(&simenv::drain_diag());
                    switched_out_at.push(*last_site);
                });
            }
        }
    });
}

fn tick_cb(site: &'static str) {
    let exhausted = CTX.with(|c| {
        let mut g = c.borrow_mut();
        if let Some(ctx) = g.as_mut() {
            ctx.ticks += 1;
            ctx.last_site = site;
            publish_site(ctx.tid, site);
            if site == "cpp.replace_all" {
                ctx.replace_ticks += 1;
            }
            match ctx.sites.iter_mut().find(|s| std::ptr::eq(s.0, site)) {
                Some(s) => s.1 += 1,
                None => ctx.sites.push((site, 1)),
            }
            if simenv::live_bytes() - ctx.live0 > ctx.mem_cap {
                ctx.mem_exceeded = true;
            }
            (ctx.ticks > ctx.fuel || ctx.replace_ticks > ctx.replace_cap || ctx.mem_exceeded, ctx.mem_exceeded)
        } else {
            (false, false)
        }
    });
    if exhausted.0 {
        resume_unwind(Box::new(FuelExhausted(site, exhausted.1)));
    }
    sched_point();
}

pub fn install_panic_hook() {
    std::panic::set_hook(Box::new(|info| {
        let (file, line) = info
            .location()
            .map(|l| (l.file().to_string(), l.line()))
            .unwrap_or(("?".to_string(), 0));
        let msg = if let Some(s) = info.payload().downcast_ref::<&str>() {
            s.to_string()
        } else if let Some(s) = info.payload().downcast_ref::<String>() {
            s.clone()
        } else {
            "<non-string payload>".to_string()
        };
        LAST_PANIC.with(|p| *p.borrow_mut() = Some((file, line, msg)));
    }));
}

struct SimLogger;
impl log::Log for SimLogger {
    fn enabled(&self, m: &log::Metadata) -> bool {
        m.level() <= log::max_level()
    }
    fn log(&self, r: &log::Record) {
        use std::fmt::Write;
        if r.level() <= log::Level::Info {
            LOGBUF.with(|b| {
                let _ = writeln!(b.borrow_mut(), "[{}] {}", r.level(), r.args());
            });
        } else if r.level() <= log::max_level() {
            // what a user running with RUST_LOG=debug|trace reads: observed as a component of its own
            // (compared with a reference taken at the same level)
            let line = format!("[{}] {}\n", r.level(), r.args());
            // the include directory is an artefact of the simulation
            let line = INCDIR.with(|d| {
                let d = d.borrow();
                if d.is_empty() { line.clone() } else { line.replace(d.as_str(), "$INC") }
            });
            DBGBUF.with(|b| {
                let mut b = b.borrow_mut();
                b.0.write_str(&line);
                b.1 += 1;
                if b.2.len() < 32 * 1024 {
                    let room = 32 * 1024 - b.2.len();
                    let mut cut = line.len().min(room);
                    while !line.is_char_boundary(cut) {
                        cut -= 1;
                    }
                    b.2.push_str(&line[..cut]);
                }
            });
        }
    }
    fn flush(&self) {}
}
static LOGGER: SimLogger = SimLogger;
pub fn install_logger() {
    let _ = log::set_logger(&LOGGER);
    log::set_max_level(log::LevelFilter::Info);
}

// ---------------------------------------------------------------- observation

#[derive(Clone, Debug, Default)]
struct Decls {
    vars: Vec<String>,
    funcs: Vec<String>,
    extra: String,
    max_map: usize,
    order_tie: bool,
    /// first entry of the line map that points outside the delivered input, if any
    bad_map: Option<String>,
    /// (hash of the key set, hash of the iteration order, size) of the `variables` and `functions` hash maps
    map_orders: Vec<(u64, u64, u8)>,
}

fn strip_order(dbg: &str) -> (String, Option<u64>) {
    // "Variable { order: 3, var_type: ..." -> remove the private insertion counter
    if let Some(i) = dbg.find("order: ") {
        let rest = &dbg[i + 7..];
        if let Some(j) = rest.find(", ") {
            let n = rest[..j].parse::<u64>().ok();
            return (format!("{}{}", &dbg[..i], &rest[j + 2..]), n);
        }
    }
    (dbg.to_string(), None)
}

/// The builder handed to `compile`: records what a builder can observe, then runs the
/// repository's own builder unchanged.
fn obs_build(cs: &CompilerState, w: &mut dyn Write, args: &Args) -> Result<(), Error> {
    let mut d = Decls::default();
    let mut orders = Vec::new();
    for (name, v) in cs.sorted_variables() {
        let (s, o) = strip_order(&format!("{:?}", v));
        orders.push(o);
        d.vars.push(format!("{} = {}", name, s));
    }
    let mut forders = Vec::new();
    for (name, f) in cs.sorted_functions() {
        let head = format!(
            "{} inline={} bank={} interrupt={} code={} locals={:?}",
            name,
            f.inline,
            f.bank,
            f.interrupt,
            f.code.is_some(),
            f.local_variables
        );
        let body = hash_bytes(format!("{:?}", f.code).as_bytes());
        let (_, o) = strip_order(&format!("{:?}", f).chars().take(64).collect::<String>());
        forders.push(o);
        d.funcs.push(format!("{} ast={:016x}", head, body));
    }
    for o in [&mut orders, &mut forders] {
        o.sort();
        if o.windows(2).any(|w| w[0].is_some() && w[0] == w[1]) {
            d.order_tie = true;
        }
    }
    d.max_map = cs.variables.len().max(cs.functions.len());
    // reach measure: in which order did the two hash maps iterate under this thread's hash key?
    {
        let mut record = |names: Vec<&String>| {
            if names.len() >= 2 && names.len() <= 6 {
                let mut oh = Fnv::new();
                for n in &names {
                    oh.write_str(n);
                }
                let mut sorted = names.clone();
                sorted.sort();
                let mut sh = Fnv::new();
                for n in &sorted {
                    sh.write_str(n);
                }
                d.map_orders.push((sh.finish(), oh.finish(), names.len() as u8));
            }
        };
        record(cs.variables.keys().collect());
        record(cs.functions.keys().collect());
    }
    let mut h = Fnv::new();
    h.write_str(cs.preprocessed_utf8);
    for m in cs.mapped_lines.iter() {
        h.write_str(&m.0);
        h.write_u64(m.1 as u64);
        if let Some(i) = &m.2 {
            h.write_str(&i.0);
            h.write_u64(i.1 as u64);
        }
    }
    // the line map a builder sees must point inside the delivered input: a known file, 1 <= line <= its lines
    FILE_LINES.with(|fl| {
        let fl = fl.borrow();
        let find = |name: &str| fl.iter().find(|f| f.0 == name || f.0.ends_with(&format!("/{}", name))).map(|f| f.1);
        for (i, m) in cs.mapped_lines.iter().enumerate() {
            let bad = match find(&m.0) {
                None => Some(format!("entry {} names file {:?} which was not delivered", i, m.0)),
                Some(n) if m.1 < 1 || m.1 > n => Some(format!("entry {} points to line {} of {:?} which has {} line(s)", i, m.1, m.0, n)),
                _ => match &m.2 {
                    Some(inc) => match find(&inc.0) {
                        None => Some(format!("entry {} included from {:?} which was not delivered", i, inc.0)),
                        Some(n) if inc.1 < 1 || inc.1 > n => Some(format!("entry {} included from line {} of {:?} which has {} line(s)", i, inc.1, inc.0, n)),
                        _ => None,
                    },
                    None => None,
                },
            };
            if bad.is_some() {
                d.bad_map = bad;
                break;
            }
        }
    });
    if std::env::var("SIMC_SHOW_PRE").is_ok() {
        eprintln!("--- preprocessed text:\n{}--- line map: {:?}", cs.preprocessed_utf8, cs.mapped_lines);
    }
    d.extra = format!(
        "pre={:016x} literals={:?} asm={:?}",
        h.finish(),
        cs.context.literal_strings,
        cs.included_assembler
    );
    DECLS.with(|x| *x.borrow_mut() = Some(d));
    crate::build::simple_build(cs, w, args)
}

#[derive(Clone, Debug, PartialEq, Eq)]
pub enum Outcome {
    Ok,
    /// structured error: (variant, Debug text)
    Err { variant: &'static str, text: String, filename: String, line: u32, included_in: Option<(String, u32)> },
    Panic { file: String, line: u32, msg: String },
    /// step budget exhausted (or, with `memory`, live heap grown beyond its cap) at tick site `site`
    Hang { site: String, memory: bool },
    ArgsRejected(String),
}

impl Outcome {
    pub fn short(&self) -> String {
        match self {
            Outcome::Ok => "Ok".into(),
            Outcome::Err { text, .. } => format!("Err {}", text),
            Outcome::Panic { file, line, msg } => format!("PANIC {}:{} {}", file, line, msg),
            Outcome::Hang { site, memory } => format!("HANG {} at {}", if *memory { "heap growth beyond the cap" } else { "fuel exhausted" }, site),
            Outcome::ArgsRejected(s) => format!("ArgsRejected {}", s),
        }
    }
}

/// What a user of `compile` can observe about one compilation.
#[derive(Clone, Debug, PartialEq, Eq)]
pub struct Obs {
    pub outcome: Outcome,
    pub out: Vec<u8>,
    pub builder_called: bool,
    pub vars: Vec<String>,
    pub funcs: Vec<String>,
    pub extra: String,
    pub diag: String,
}

impl Obs {
    pub fn hash(&self) -> u64 {
        let mut h = Fnv::new();
        h.write_str(&format!("{:?}", self.outcome));
        h.write(&self.out);
        h.write_str(&format!("{:?}{:?}{}{}", self.vars, self.funcs, self.extra, self.diag));
        h.finish()
    }
    /// first component that differs, for reports
    pub fn diff(&self, other: &Obs) -> String {
        if self.outcome != other.outcome {
            return format!("outcome: {} <> {}", self.outcome.short(), other.outcome.short());
        }
        if self.vars != other.vars {
            let i = self.vars.iter().zip(&other.vars).position(|(a, b)| a != b);
            return format!(
                "sorted_variables differ at index {:?}: {:?} <> {:?}",
                i,
                i.map(|i| &self.vars[i]),
                i.map(|i| &other.vars[i])
            );
        }
        if self.funcs != other.funcs {
            let i = self.funcs.iter().zip(&other.funcs).position(|(a, b)| a != b);
            return format!(
                "sorted_functions differ at index {:?}: {:?} <> {:?}",
                i,
                i.map(|i| &self.funcs[i]),
                i.map(|i| &other.funcs[i])
            );
        }
        if self.extra != other.extra {
            return format!("preprocessed text / literal table / included assembler differ: {} <> {}", self.extra, other.extra);
        }
        if self.out != other.out {
            let i = self.out.iter().zip(&other.out).position(|(a, b)| a != b).unwrap_or(self.out.len().min(other.out.len()));
            let ctx = |o: &Vec<u8>| String::from_utf8_lossy(&o[i.saturating_sub(30)..(i + 30).min(o.len())]).to_string();
            return format!(
                "output bytes differ at offset {} (lengths {} / {}): {:?} <> {:?}",
                i,
                self.out.len(),
                other.out.len(),
                ctx(&self.out),
                ctx(&other.out)
            );
        }
        if self.diag != other.diag {
            return format!("diagnostics differ: {:?} <> {:?}", self.diag, other.diag);
        }
        "equal".to_string()
    }
}

#[derive(Clone, Debug)]
pub struct JobResult {
    pub obs: Obs,
    pub key: u64,
    pub ticks: u64,
    pub sites: Vec<(&'static str, u64)>,
    pub rlog: IoLog,
    pub wlog: IoLog,
    pub delivered: usize,
    pub max_map: usize,
    pub order_tie: bool,
    pub switched_out_at: Vec<&'static str>,
    pub getrandom_calls: u32,
    pub bad_map: Option<String>,
    pub map_orders: Vec<(u64, u64, u8)>,
    pub clock_reads: u32,
    pub pid_reads: u32,
    pub include_depth: u32,
    /// Debug/Trace log text of the job: (digest of all of it, number of records, first 32 KiB)
    pub dbg: (u64, u32, String),
}

pub struct WorkerEnv {
    /// scratch directory of this worker process (tmpfs)
    pub dir: String,
}

impl WorkerEnv {
    /// materialise an include tree (content addressed) and return its directory
    pub fn include_dir(&self, job: &JobSpec) -> String {
        let dir = format!("{}/inc/{:016x}", self.dir, job.inc_hash());
        if job.includes.is_empty() {
            return dir;
        }
        let marker = format!("{}/.complete", dir);
        if std::path::Path::new(&marker).exists() {
            return dir;
        }
        let _ = std::fs::create_dir_all(&dir);
        for f in &job.includes {
            let p = format!("{}/{}", dir, f.path);
            if let Some(parent) = std::path::Path::new(&p).parent() {
                let _ = std::fs::create_dir_all(parent);
            }
            match &f.kind {
                IncKind::File(b) => {
                    let _ = std::fs::write(&p, &b.0);
                }
                IncKind::Dir => {
                    let _ = std::fs::create_dir_all(&p);
                }
            }
        }
        let _ = std::fs::write(&marker, b"");
        dir
    }
}

pub fn build_args(job: &JobSpec, incdir: &str) -> Result<Args, String> {
    let mut v: Vec<String> = vec!["cc6502".into(), "string".into(), "-S".into(), "-o".into(), "string".into()];
    for a in &job.args {
        v.push(a.replace("$INC", incdir));
    }
    Args::try_parse_from(v).map_err(|e| e.kind().to_string())
}

/// Runs one job on the calling (caller) thread. The thread must hold the baton.
fn run_job(job: &JobSpec, env: &WorkerEnv, sched: &Arc<Sched>, tid: usize, multi: bool, clock: (i128, i32)) -> JobResult {
    let mut clock_reads = (0u32, 0u32);
    let incdir = env.include_dir(job);
    let fuel = if job.fuel > 0 { job.fuel } else { job.default_fuel() };
    // noise printed between jobs is not attributed to anybody
    let _ = simenv::drain_diag();
    LOGBUF.with(|b| b.borrow_mut().clear());
    DBGBUF.with(|b| *b.borrow_mut() = (Fnv::new(), 0, String::new()));
    INCDIR.with(|d| *d.borrow_mut() = incdir.clone());
    DECLS.with(|d| *d.borrow_mut() = None);
    LAST_PANIC.with(|p| *p.borrow_mut() = None);
    publish_site(tid, "start");
    FILE_LINES.with(|fl| {
        let lc = |b: &[u8]| -> u32 {
            let nl = b.iter().filter(|c| **c == b'\n').count() as u32;
            (if b.is_empty() || b.ends_with(b"\n") { nl } else { nl + 1 }).max(1)
        };
        let mut v = vec![("string".to_string(), lc(&job.source.0))];
        for f in &job.includes {
            if let IncKind::File(b) = &f.kind {
                v.push((f.path.clone(), lc(&b.0)));
            }
        }
        *fl.borrow_mut() = v;
    });
    CTX.with(|c| {
        *c.borrow_mut() = Some(Ctx {
            sched: sched.clone(),
            tid,
            multi,
            fuel,
            replace_cap: job.replace_cap(),
            replace_ticks: 0,
            live0: simenv::live_bytes(),
            // parse trees and ASTs are proportional to the input: the cap grows with it
            mem_cap: match std::env::var("SIMC_MEM_CAP_MB").ok().and_then(|v| v.parse::<isize>().ok()) {
                Some(mb) => mb << 20,
                None => MEM_CAP_BYTES + 4096 * job.source.0.len() as isize,
            },
            mem_exceeded: false,
            ticks: 0,
            sites: Vec::new(),
            diag: Vec::new(),
            last_site: "start",
            switched_out_at: Vec::new(),
        })
    });
    let reader = SimReader::new(job.source.0.clone(), &job.reader);
    let rlog = reader.log.clone();
    let mut writer = SimWriter::new(&job.writer);
    let gr0 = simenv::getrandom_calls();

    let outcome = match build_args(job, &incdir) {
        Err(e) => Outcome::ArgsRejected(e),
        Ok(args) => {
            cc6502::verif_hooks::set_tick(Some(tick_cb));
            simenv::set_sim_clock(Some(clock));
            let r = catch_unwind(AssertUnwindSafe(|| compile(reader, &mut writer, &args, obs_build)));
            clock_reads = simenv::clock_reads();
            simenv::set_sim_clock(None);
            cc6502::verif_hooks::set_tick(None);
            match r {
                Ok(Ok(())) => Outcome::Ok,
                Ok(Err(e)) => {
                    let (variant, filename, line, included_in) = match &e {
                        Error::Io(_) => ("Io", String::new(), 0, None),
                        Error::Syntax { filename, line, included_in, .. } => ("Syntax", filename.clone(), *line, included_in.clone()),
                        Error::Compiler { filename, line, included_in, .. } => ("Compiler", filename.clone(), *line, included_in.clone()),
                        Error::Unimplemented { .. } => ("Unimplemented", String::new(), 0, None),
                        Error::Configuration { .. } => ("Configuration", String::new(), 0, None),
                    };
                    Outcome::Err { variant, text: format!("{:?} // {}", e, e), filename, line, included_in }
                }
                Err(payload) => {
                    if let Some(f) = payload.downcast_ref::<FuelExhausted>() {
                        Outcome::Hang { site: f.0.to_string(), memory: f.1 }
                    } else if payload.downcast_ref::<crate::simio::InjectedUnwind>().is_some() {
                        Outcome::Panic { file: INJECTED.into(), line: 0, msg: "the simulated reader/sink unwound the compilation".into() }
                    } else {
                        let (file, line, msg) = LAST_PANIC
                            .with(|p| p.borrow_mut().take())
                            .unwrap_or(("?".into(), 0, "?".into()));
                        Outcome::Panic { file, line, msg }
                    }
                }
            }
        }
    };
    let ctx = CTX.with(|c| c.borrow_mut().take()).unwrap();
    let mut diag = ctx.diag;
    diag.extend_from_slice(&simenv::drain_diag());
    let mut diag = String::from_utf8_lossy(&diag).to_string();
    LOGBUF.with(|b| diag.push_str(&b.borrow()));
    // the include directory is an artefact of the simulation
    let diag = diag.replace(&incdir, "$INC");
    let decls = DECLS.with(|d| d.borrow_mut().take());
    let builder_called = decls.is_some();
    let decls = decls.unwrap_or_default();
    let outcome = match outcome {
        Outcome::Err { variant, text, filename, line, included_in } => Outcome::Err {
            variant,
            text: text.replace(&incdir, "$INC"),
            filename: filename.replace(&incdir, "$INC"),
            line,
            included_in,
        },
        o => o,
    };
    let rl = rlog.borrow().clone();
    JobResult {
        obs: Obs {
            outcome,
            out: {
                let mut o = std::mem::take(&mut writer.accepted);
                if writer.overflow_bytes > 0 {
                    o.extend_from_slice(format!("\n[+{} bytes, digest {:016x}]", writer.overflow_bytes, writer.overflow.finish()).as_bytes());
                }
                o
            },
            builder_called,
            vars: decls.vars,
            funcs: decls.funcs,
            extra: decls.extra,
            diag,
        },
        key: job.key(),
        ticks: ctx.ticks,
        sites: ctx.sites,
        delivered: rl.bytes as usize,
        rlog: rl,
        wlog: writer.log.clone(),
        max_map: decls.max_map,
        order_tie: decls.order_tie,
        switched_out_at: ctx.switched_out_at,
        getrandom_calls: simenv::getrandom_calls() - gr0,
        bad_map: decls.bad_map.clone(),
        map_orders: decls.map_orders.clone(),
        clock_reads: clock_reads.0,
        pid_reads: clock_reads.1,
        include_depth: 0,
        dbg: DBGBUF.with(|b| {
            let b = b.borrow();
            (b.0.finish(), b.1, b.2.clone())
        }),
    }
}

pub struct WorldResult {
    pub jobs: Vec<Option<JobResult>>,
    pub sched: SchedReport,
    /// Some((thread, job index)) when the wall-clock backstop fired
    pub wall_hang: Option<(usize, usize)>,
}

pub const STACK_BYTES: usize = 8 << 20;
/// `file` of the Panic outcome of a compilation unwound by the simulator itself (stream flavour 4)
pub const INJECTED: &str = "<injected unwind>";

/// Variables the simulator controls. Baseline (environment 0): every one of them unset except LANG=C, TZ=UTC,
/// HOME=/root, USER=root, TERM=dumb; working directory = the worker's empty `cwd`.
const CONTROLLED_VARS: [&str; 24] = [
    "LANG", "LC_ALL", "LC_CTYPE", "LC_MESSAGES", "TZ", "HOME", "USER", "LOGNAME", "TERM", "COLUMNS", "LINES", "NO_COLOR", "CLICOLOR_FORCE",
    "TMPDIR", "PWD", "SOURCE_DATE_EPOCH", "CC6502_INCLUDE", "CC6502_OPTS", "CFLAGS", "CPATH", "C_INCLUDE_PATH", "INCLUDE", "RUST_LOG",
    "RUST_LOG_STYLE",
];
const BASELINE_ENV: [(&str, &str); 5] = [("LANG", "C"), ("TZ", "UTC"), ("HOME", "/root"), ("USER", "root"), ("TERM", "dumb")];
/// The non-baseline environments of `World::env` (1-based): (variables, use the second working directory).
pub const ENVIRONMENTS: [(&[(&str, &str)], bool); 3] = [
    (
        &[
            ("LANG", "fr_FR.UTF-8"), ("LC_ALL", "fr_FR.UTF-8"), ("TZ", "Asia/Tokyo"), ("HOME", "/nonexistent"), ("USER", "nobody"),
            ("LOGNAME", "nobody"), ("TERM", "xterm-256color"), ("COLUMNS", "40"), ("LINES", "10"), ("NO_COLOR", "1"), ("TMPDIR", "/dev/shm"),
        ],
        true,
    ),
    (
        &[
            // "$INC" = the materialised include tree of the world's first job that has one: a compiler that consults
            // these variables finds the headers the request itself does not name a directory for
            ("CC6502_INCLUDE", "$INC"), ("CC6502_OPTS", "-O3 -DX=1"), ("CFLAGS", "-O3 -DX=1 -I$INC"), ("CPATH", "$INC"),
            ("C_INCLUDE_PATH", "$INC"), ("INCLUDE", "$INC"), ("RUST_LOG", "trace"), ("RUST_LOG_STYLE", "always"), ("CLICOLOR_FORCE", "1"),
        ],
        true,
    ),
    (&[("PWD", "/wrong"), ("SOURCE_DATE_EPOCH", "1"), ("LANG", "tr_TR.UTF-8"), ("LC_CTYPE", "tr_TR.UTF-8"), ("TZ", "America/St_Johns")], false),
];

/// Puts the process into environment `env` (no caller thread is running).
fn apply_environment(env: u8, dir: &str, inc: &str) {
    for v in CONTROLLED_VARS {
        std::env::remove_var(v);
    }
    let (vars, alt): (&[(&str, &str)], bool) = match env {
        0 => (&BASELINE_ENV, false),
        n => {
            let e = &ENVIRONMENTS[(n as usize - 1) % ENVIRONMENTS.len()];
            (e.0, e.1)
        }
    };
    for (k, v) in vars {
        std::env::set_var(k, v.replace("$INC", inc));
    }
    let _ = std::env::set_current_dir(format!("{}/{}", dir, if alt { "cwd2" } else { "cwd" }));
}

/// Runs a world. Not re-entrant: one world at a time per process.
pub fn run_world(world: &World, env: &Arc<WorkerEnv>, wall_per_job: Duration) -> WorldResult {
    let n = world.threads.len();
    let env_inc = world.jobs.iter().find(|j| !j.includes.is_empty()).map(|j| env.include_dir(j)).unwrap_or_else(|| "/dev/shm".to_string());
    apply_environment(world.env, &env.dir, &env_inc);
    if world.stdio != 0 {
        simenv::break_stdio(world.stdio);
    }
    log::set_max_level(match world.log_level {
        4 => log::LevelFilter::Debug,
        5 => log::LevelFilter::Trace,
        _ => log::LevelFilter::Info,
    });
    let sched = Arc::new(Sched::new(n, world.sched.clone()));
    let results: Arc<Mutex<Vec<Option<JobResult>>>> = Arc::new(Mutex::new(vec![None; world.jobs.len()]));
    let world = Arc::new(world.clone());
    let current_job: Arc<Vec<AtomicUsize>> = Arc::new((0..n).map(|_| AtomicUsize::new(usize::MAX)).collect());
    let multi = n > 1;
    let mut handles = Vec::new();
    for tid in 0..n {
        let sched = sched.clone();
        let results = results.clone();
        let world = world.clone();
        let env = env.clone();
        let current_job = current_job.clone();
        let mut key = [0u8; 16];
        let kb = from_hex(&world.threads[tid].hash_key);
        for (i, b) in kb.iter().take(16).enumerate() {
            key[i] = *b;
        }
        let h = std::thread::Builder::new()
            .name(format!("caller{}", tid))
            .stack_size(STACK_BYTES)
            .spawn(move || {
                simenv::set_thread_hash_key(key);
                sched.start(tid);
                for (pos, &j) in world.threads[tid].jobs.iter().enumerate() {
                    current_job[tid].store(j, Ordering::SeqCst);
                    // simulated wall clock and pid of this job: a function of the world (seed, thread, position)
                    let h = crate::rng::mix(world.seed ^ 0xC10C, (tid as u64) << 8 | pos as u64);
                    let start_ns = 1_500_000_000i128 * 1_000_000_000 + (h % (400_000_000u64 * 1000)) as i128 * 1_000_000;
                    let pid = 2 + (h >> 40) as i32 % 4_000_000;
                    let r = run_job(&world.jobs[j], &env, &sched, tid, multi, (start_ns, pid));
                    results.lock().unwrap()[j] = Some(r);
                }
                current_job[tid].store(usize::MAX, Ordering::SeqCst);
                sched.finish(tid, || {});
            })
            .expect("spawn caller thread");
        handles.push(h);
    }
    sched.kickoff();
    let budget = wall_per_job * (world.jobs.len().max(1) as u32);
    let ok = sched.wait_all_done(budget);
    let mut wall_hang = None;
    if ok {
        for h in handles {
            let _ = h.join();
        }
    } else {
        let t = sched.current().unwrap_or(0);
        wall_hang = Some((t, current_job[t].load(Ordering::SeqCst)));
        // the stuck thread cannot be stopped: the caller must end this process
    }
    log::set_max_level(log::LevelFilter::Info);
    if world.stdio != 0 {
        simenv::restore_stdio();
    }
    if world.env != 0 && wall_hang.is_none() {
        apply_environment(0, &env.dir, "");
    }
    let jobs = std::mem::take(&mut *results.lock().unwrap());
    WorldResult { jobs, sched: sched.report(), wall_hang }
}
