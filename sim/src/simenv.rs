//! Process-level seams owned by the simulator.
//!
//! * `getrandom`: std's `RandomState` obtains its per-thread SipHash keys through the libc symbol
//!   `getrandom`, which it resolves weakly "to allow interposition".  Defining the symbol in this
//!   binary hands every hash seed of every thread to the simulator.
//! * stdout/stderr redirection: diagnostics printed with `println!`/`eprintln!` by the code under
//!   test are captured from a file the simulator drains while it holds the scheduling baton.

use std::cell::Cell;
use std::fs::File;
use std::io::{Read, Seek, SeekFrom, Write};
use std::os::fd::{AsRawFd, FromRawFd};
use std::sync::Mutex;

thread_local! {
    static HASH_KEY: Cell<[u8; 16]> = const { Cell::new([0u8; 16]) };
    static GETRANDOM_CALLS: Cell<u32> = const { Cell::new(0) };
}

pub fn set_thread_hash_key(k: [u8; 16]) {
    HASH_KEY.with(|c| c.set(k));
}
pub fn getrandom_calls() -> u32 {
    GETRANDOM_CALLS.with(|c| c.get())
}

/// Interposed libc entry point.
#[no_mangle]
pub unsafe extern "C" fn getrandom(buf: *mut u8, len: usize, _flags: u32) -> isize {
    let key = HASH_KEY.with(|c| c.get());
    GETRANDOM_CALLS.with(|c| c.set(c.get() + 1));
    for i in 0..len {
        *buf.add(i) = key[i % 16];
    }
    len as isize
}

extern "C" {
    fn dup(fd: i32) -> i32;
    fn dup2(a: i32, b: i32) -> i32;
    fn close(fd: i32) -> i32;
    fn pipe(fds: *mut i32) -> i32;
}

pub struct DiagCapture {
    reader: File,
    pos: u64,
}

static CAPTURE: Mutex<Option<DiagCapture>> = Mutex::new(None);

/// Redirects fd 1 and fd 2 into `path` and returns a `File` for the original stdout
/// (the protocol channel to the parent).
pub fn redirect_stdio(path: &str) -> std::io::Result<File> {
    let proto = unsafe { dup(1) };
    if proto < 0 {
        return Err(std::io::Error::last_os_error());
    }
    let f = std::fs::OpenOptions::new()
        .create(true)
        .append(true)
        .read(true)
        .open(path)?;
    f.set_len(0)?;
    unsafe {
        if dup2(f.as_raw_fd(), 1) < 0 || dup2(f.as_raw_fd(), 2) < 0 {
            return Err(std::io::Error::last_os_error());
        }
    }
    let reader = File::open(path)?;
    *CAPTURE.lock().unwrap() = Some(DiagCapture { reader, pos: 0 });
    Ok(unsafe { File::from_raw_fd(proto) })
}

static SAVED_STDIO: Mutex<Option<(i32, i32)>> = Mutex::new(None);

/// Fault on the process's diagnostic streams while a world runs: 1 = stdout is a full device (ENOSPC), 2 = stderr
/// is, 3 = both are, 4 = stdout is a pipe whose reader has gone (EPIPE; SIGPIPE is ignored in Rust programs).
pub fn break_stdio(mode: u8) {
    let _ = std::io::stdout().flush();
    unsafe {
        let saved = (dup(1), dup(2));
        *SAVED_STDIO.lock().unwrap() = Some(saved);
        let full = std::fs::OpenOptions::new().write(true).open("/dev/full");
        match mode {
            4 => {
                let mut fds = [0i32; 2];
                if pipe(fds.as_mut_ptr()) == 0 {
                    close(fds[0]);
                    dup2(fds[1], 1);
                    close(fds[1]);
                }
            }
            m => {
                if let Ok(f) = full {
                    if m & 1 != 0 {
                        dup2(f.as_raw_fd(), 1);
                    }
                    if m & 2 != 0 {
                        dup2(f.as_raw_fd(), 2);
                    }
                }
            }
        }
    }
}

pub fn restore_stdio() {
    // whatever std still buffers for the broken stream is dropped into it, not into the capture file
    let _ = std::io::stdout().flush();
    if let Some((o, e)) = SAVED_STDIO.lock().unwrap().take() {
        unsafe {
            dup2(o, 1);
            dup2(e, 2);
            close(o);
            close(e);
        }
    }
}

/// Everything written to stdout/stderr since the previous drain.
pub fn drain_diag() -> Vec<u8> {
    let _ = std::io::stdout().flush();
    let mut g = CAPTURE.lock().unwrap();
    let mut out = Vec::new();
    if let Some(c) = g.as_mut() {
        let _ = c.reader.seek(SeekFrom::Start(c.pos));
        if c.reader.read_to_end(&mut out).is_ok() {
            c.pos += out.len() as u64;
        }
        if c.pos > (8 << 20) {
            // keep the capture file small: truncate and restart (writers use O_APPEND)
            let _ = c.reader.seek(SeekFrom::Start(0));
            if let Ok(f) = std::fs::OpenOptions::new().write(true).open(capture_path()) {
                let _ = f.set_len(0);
                c.pos = 0;
            }
        }
    }
    out
}

static CAPTURE_PATH: Mutex<String> = Mutex::new(String::new());
pub fn set_capture_path(p: &str) {
    *CAPTURE_PATH.lock().unwrap() = p.to_string();
}
fn capture_path() -> String {
    CAPTURE_PATH.lock().unwrap().clone()
}


// ---------------------------------------------------------------- allocation accounting
//
// A counting wrapper around the system allocator: live bytes per thread. The tick callback uses it to
// stop a job whose memory grows without bound (e.g. a macro expansion that doubles on every pass) long
// before the process-wide RLIMIT_AS would abort the worker, so that such runs are classified
// deterministically at the tick site that was looping.

use std::alloc::{GlobalAlloc, Layout, System};

thread_local! {
    static LIVE: Cell<isize> = const { Cell::new(0) };
    static PEAK: Cell<isize> = const { Cell::new(0) };
}

pub struct CountingAlloc;

unsafe impl GlobalAlloc for CountingAlloc {
    unsafe fn alloc(&self, l: Layout) -> *mut u8 {
        let p = System.alloc(l);
        if !p.is_null() {
            let _ = LIVE.try_with(|c| c.set(c.get() + l.size() as isize));
        }
        p
    }
    unsafe fn dealloc(&self, p: *mut u8, l: Layout) {
        System.dealloc(p, l);
        let _ = LIVE.try_with(|c| c.set(c.get() - l.size() as isize));
    }
    unsafe fn alloc_zeroed(&self, l: Layout) -> *mut u8 {
        let p = System.alloc_zeroed(l);
        if !p.is_null() {
            let _ = LIVE.try_with(|c| c.set(c.get() + l.size() as isize));
        }
        p
    }
    unsafe fn realloc(&self, p: *mut u8, l: Layout, new_size: usize) -> *mut u8 {
        let q = System.realloc(p, l, new_size);
        if !q.is_null() {
            let _ = LIVE.try_with(|c| c.set(c.get() + new_size as isize - l.size() as isize));
        }
        q
    }
}

/// bytes currently allocated by the calling thread (approximate across threads, exact for a confined job)
pub fn live_bytes() -> isize {
    let v = LIVE.with(|c| c.get());
    PEAK.with(|p| if v > p.get() { p.set(v) });
    v
}

// ---------------------------------------------------------------- simulated wall clock and process id
//
// std reaches the wall clock through libc's `clock_gettime(CLOCK_REALTIME)` (also `gettimeofday`, `time`)
// and the process id through `getpid`. Defining those symbols here makes both part of the world: a caller
// thread inside a job sees the simulated values of its world (different in every world, advancing by one
// microsecond per read), everything else sees the real ones. cc6502 reads neither today; the probes count
// reads so that a change which starts to (a build stamp, a time-seeded choice) is observed under different
// clocks and pids and shows up as a C05 divergence.

thread_local! {
    static SIM_CLOCK_NS: Cell<i128> = const { Cell::new(-1) };
    static SIM_PID: Cell<i32> = const { Cell::new(0) };
    static CLOCK_READS: Cell<u32> = const { Cell::new(0) };
    static PID_READS: Cell<u32> = const { Cell::new(0) };
}

#[repr(C)]
pub struct Timespec {
    tv_sec: i64,
    tv_nsec: i64,
}
#[repr(C)]
pub struct Timeval {
    tv_sec: i64,
    tv_usec: i64,
}

extern "C" {
    fn syscall(num: i64, ...) -> i64;
}
#[cfg(target_arch = "x86_64")]
mod nr {
    pub const CLOCK_GETTIME: i64 = 228;
    pub const GETTIMEOFDAY: i64 = 96;
    pub const GETPID: i64 = 39;
}
#[cfg(target_arch = "aarch64")]
mod nr {
    pub const CLOCK_GETTIME: i64 = 113;
    pub const GETTIMEOFDAY: i64 = 169;
    pub const GETPID: i64 = 172;
}

/// Some(start in ns since the epoch, pid) while a job runs on this thread, None otherwise.
pub fn set_sim_clock(v: Option<(i128, i32)>) {
    match v {
        Some((ns, pid)) => {
            SIM_CLOCK_NS.with(|c| c.set(ns));
            SIM_PID.with(|c| c.set(pid));
        }
        None => {
            SIM_CLOCK_NS.with(|c| c.set(-1));
            SIM_PID.with(|c| c.set(0));
        }
    }
    CLOCK_READS.with(|c| c.set(0));
    PID_READS.with(|c| c.set(0));
}
pub fn clock_reads() -> (u32, u32) {
    (CLOCK_READS.with(|c| c.get()), PID_READS.with(|c| c.get()))
}

fn sim_now() -> Option<i128> {
    let v = SIM_CLOCK_NS.try_with(|c| c.get()).unwrap_or(-1);
    if v < 0 {
        return None;
    }
    let _ = SIM_CLOCK_NS.try_with(|c| c.set(v + 1000));
    let _ = CLOCK_READS.try_with(|c| c.set(c.get() + 1));
    Some(v)
}

#[no_mangle]
pub unsafe extern "C" fn clock_gettime(clk: i32, ts: *mut Timespec) -> i32 {
    // CLOCK_REALTIME = 0, CLOCK_REALTIME_COARSE = 5
    if (clk == 0 || clk == 5) && !ts.is_null() {
        if let Some(ns) = sim_now() {
            (*ts).tv_sec = (ns / 1_000_000_000) as i64;
            (*ts).tv_nsec = (ns % 1_000_000_000) as i64;
            return 0;
        }
    }
    syscall(nr::CLOCK_GETTIME, clk as i64, ts) as i32
}

#[no_mangle]
pub unsafe extern "C" fn gettimeofday(tv: *mut Timeval, tz: *mut u8) -> i32 {
    if !tv.is_null() {
        if let Some(ns) = sim_now() {
            (*tv).tv_sec = (ns / 1_000_000_000) as i64;
            (*tv).tv_usec = ((ns % 1_000_000_000) / 1000) as i64;
            return 0;
        }
    }
    syscall(nr::GETTIMEOFDAY, tv, tz) as i32
}

#[no_mangle]
pub unsafe extern "C" fn time(t: *mut i64) -> i64 {
    let mut ts = Timespec { tv_sec: 0, tv_nsec: 0 };
    clock_gettime(0, &mut ts);
    if !t.is_null() {
        *t = ts.tv_sec;
    }
    ts.tv_sec
}

#[no_mangle]
pub unsafe extern "C" fn getpid() -> i32 {
    let p = SIM_PID.try_with(|c| c.get()).unwrap_or(0);
    if p != 0 {
        let _ = PID_READS.try_with(|c| c.set(c.get() + 1));
        return p;
    }
    syscall(nr::GETPID) as i32
}
