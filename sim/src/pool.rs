//! Parent side: a pool of worker processes fed from a shared queue; dead workers are detected,
//! attributed to the world they announced last, and replaced.

use crate::worker::{Item, RMsg, VMsg};
use std::collections::VecDeque;
use std::io::{BufRead, BufReader, Write};
use std::process::{Child, ChildStdin, ChildStdout, Command, Stdio};
use std::sync::mpsc::{channel, Receiver, Sender};
use std::sync::{Arc, Mutex};

pub enum Msg {
    /// (process id, violation)
    V(usize, VMsg),
    /// (process id = slot * 1000 + generation, result)
    R(usize, RMsg),
    /// world tags announced by a process while it worked on one item, in order
    Tags(usize, Vec<String>),
    /// event digest of one world (self-test)
    D(String, u64),
    /// worker died while running `tag` of `item`
    Died { tag: String, status: String, diag: String, item: Item },
    /// harness-level failure (cannot spawn, protocol error)
    Broken(String),
}

pub struct WorkerProc {
    child: Child,
    stdin: ChildStdin,
    stdout: BufReader<ChildStdout>,
    pub dir: String,
}

pub fn scratch_base() -> String {
    let base = std::env::var("VERIF_SCRATCH").ok().unwrap_or_else(|| {
        if std::path::Path::new("/dev/shm").is_dir() {
            "/dev/shm".to_string()
        } else {
            std::env::temp_dir().to_string_lossy().to_string()
        }
    });
    format!("{}/simc-{}", base, std::process::id())
}

pub const MEM_LIMIT_KB: u64 = 1536 * 1024;

impl WorkerProc {
    pub fn spawn(slot: usize) -> Result<WorkerProc, String> {
        let exe = std::env::current_exe().map_err(|e| e.to_string())?;
        let dir = format!("{}/w{}", scratch_base(), slot);
        let _ = std::fs::remove_dir_all(&dir);
        std::fs::create_dir_all(&dir).map_err(|e| format!("mkdir {}: {}", dir, e))?;
        let cmd = format!("ulimit -v {}; ulimit -c 0; exec \"$0\" worker --dir \"$1\"", MEM_LIMIT_KB);
        let mut child = Command::new("sh")
            .arg("-c")
            .arg(cmd)
            .arg(&exe)
            .arg(&dir)
            .stdin(Stdio::piped())
            .stdout(Stdio::piped())
            .stderr(Stdio::null())
            .env("RUST_BACKTRACE", "1")
            .spawn()
            .map_err(|e| format!("spawn worker: {}", e))?;
        let stdin = child.stdin.take().unwrap();
        let mut stdout = BufReader::new(child.stdout.take().unwrap());
        let mut line = String::new();
        stdout.read_line(&mut line).map_err(|e| e.to_string())?;
        if line.trim() != "READY" {
            let _ = child.kill();
            let _ = child.wait();
            return Err(format!("worker did not start: {:?}", line));
        }
        Ok(WorkerProc { child, stdin, stdout, dir })
    }

    pub fn send(&mut self, item: &Item) -> bool {
        let s = serde_json::to_string(item).unwrap();
        self.stdin.write_all(s.as_bytes()).is_ok() && self.stdin.write_all(b"\n").is_ok() && self.stdin.flush().is_ok()
    }

    /// Reads messages until the item's `R`; on EOF returns Err(last announced tag).
    pub fn collect(&mut self, mut on_v: impl FnMut(VMsg)) -> Result<RMsg, (String, String)> {
        let mut tags = Vec::new();
        self.collect_d(&mut on_v, |_, _| {}, &mut tags)
    }

    pub fn collect_d(&mut self, on_v: &mut dyn FnMut(VMsg), mut on_d: impl FnMut(String, u64), tags: &mut Vec<String>) -> Result<RMsg, (String, String)> {
        let mut last = String::new();
        let mut last_world = String::new();
        let mut line = String::new();
        loop {
            line.clear();
            match self.stdout.read_line(&mut line) {
                Ok(0) | Err(_) => return Err((last_world, last)),
                Ok(_) => {}
            }
            let l = line.trim_end();
            if let Some(t) = l.strip_prefix("S ") {
                last = t.to_string();
                tags.push(t.to_string());
                if !t.starts_with("ref") {
                    last_world = t.to_string();
                }
            } else if let Some(d) = l.strip_prefix("D ") {
                if let Some((t, h)) = d.rsplit_once(' ') {
                    on_d(t.to_string(), h.parse().unwrap_or(0));
                }
            } else if let Some(j) = l.strip_prefix("V ") {
                match serde_json::from_str::<VMsg>(j) {
                    Ok(v) => on_v(v),
                    Err(e) => return Err((last_world, format!("protocol: bad V: {}", e))),
                }
            } else if let Some(j) = l.strip_prefix("R ") {
                return serde_json::from_str::<RMsg>(j).map_err(|e| (last_world.clone(), format!("protocol: bad R: {}", e)));
            } else if l.starts_with("E ") {
                return Err((last_world, format!("protocol: {}", l)));
            }
        }
    }

    /// Wait for a dead worker and describe how it ended.
    pub fn reap(&mut self) -> (String, String) {
        let _ = self.child.kill();
        let status = match self.child.wait() {
            Ok(s) => {
                use std::os::unix::process::ExitStatusExt;
                if let Some(sig) = s.signal() {
                    format!("signal {}", sig)
                } else {
                    format!("exit {}", s.code().unwrap_or(-1))
                }
            }
            Err(e) => format!("wait failed: {}", e),
        };
        let diag = std::fs::read(format!("{}/diag.out", self.dir)).map(|b| String::from_utf8_lossy(&b).to_string()).unwrap_or_default();
        let tail: String = diag.chars().rev().take(3000).collect::<String>().chars().rev().collect();
        (status, tail)
    }

    pub fn shutdown(mut self) {
        let _ = self.send(&Item::Exit);
        let _ = self.child.wait();
        let _ = std::fs::remove_dir_all(&self.dir);
    }
}

/// The remainder of `item` after the world announced as `tag` (which killed the worker).
pub fn remainder(item: &Item, tag: &str) -> Option<Item> {
    let parts: Vec<&str> = tag.split(':').collect();
    match item {
        Item::C05Seeds { base, to, digests, .. } => {
            let i: u64 = parts.get(1)?.parse().ok()?;
            if i + 1 < *to {
                Some(Item::C05Seeds { base: *base, from: i + 1, to: *to, digests: *digests })
            } else {
                None
            }
        }
        Item::C16Seeds { base, to, digests, .. } => {
            let i: u64 = parts.get(1)?.parse().ok()?;
            if i + 1 < *to {
                Some(Item::C16Seeds { base: *base, from: i + 1, to: *to, digests: *digests })
            } else {
                None
            }
        }
        Item::C05Keys { base, prog, k_to, .. } => {
            let k: u64 = parts.get(2)?.parse().ok()?;
            if k + 1 < *k_to {
                Some(Item::C05Keys { base: *base, prog: *prog, k_from: k + 1, k_to: *k_to })
            } else {
                None
            }
        }
        Item::Delivery { .. } => None,
        Item::C16Progen { base, to, .. } => {
            let i: u64 = parts.get(1)?.parse().ok()?;
            if i + 1 < *to {
                Some(Item::C16Progen { base: *base, from: i + 1, to: *to })
            } else {
                None
            }
        }
        Item::C16Enum { prog, kind, idx } => {
            let i: usize = parts.get(3)?.parse().ok()?;
            let pos = idx.iter().position(|x| *x == i)?;
            if pos + 1 < idx.len() {
                Some(Item::C16Enum { prog: *prog, kind: kind.clone(), idx: idx[pos + 1..].to_vec() })
            } else {
                None
            }
        }
        _ => None,
    }
}

/// Runs all `items` on `n` workers; messages arrive on the returned channel; the channel closes
/// when everything has been processed.
pub fn run_pool(n: usize, items: Vec<Item>) -> Receiver<Msg> {
    run_pool_opts(n, items, false)
}

/// `fresh_per_item`: every work item gets a brand-new worker process (identical process histories
/// whatever the worker count - used by the determinism self-test).
pub fn run_pool_opts(n: usize, items: Vec<Item>, fresh_per_item: bool) -> Receiver<Msg> {
    let (tx, rx): (Sender<Msg>, Receiver<Msg>) = channel();
    let queue = Arc::new(Mutex::new(VecDeque::from(items)));
    for slot in 0..n {
        let tx = tx.clone();
        let queue = queue.clone();
        std::thread::spawn(move || {
            let mut wp = match WorkerProc::spawn(slot) {
                Ok(w) => w,
                Err(e) => {
                    let _ = tx.send(Msg::Broken(e));
                    return;
                }
            };
            let mut generation = 0usize;
            loop {
                let procid = slot * 1000 + generation;
                let item = { queue.lock().unwrap().pop_front() };
                let Some(item) = item else { break };
                if !wp.send(&item) {
                    let _ = tx.send(Msg::Broken("cannot send to worker".into()));
                    return;
                }
                let txv = tx.clone();
                let txd = tx.clone();
                let mut tags = Vec::new();
                let res = wp.collect_d(
                    &mut |v| {
                        let _ = txv.send(Msg::V(procid, v));
                    },
                    |t, d| {
                        let _ = txd.send(Msg::D(t, d));
                    },
                    &mut tags,
                );
                let _ = tx.send(Msg::Tags(procid, tags));
                match res {
                    Ok(r) => {
                        let _ = tx.send(Msg::R(procid, r));
                        if fresh_per_item {
                            generation += 1;
                            let dir = wp.dir.clone();
                            wp.shutdown();
                            let _ = std::fs::remove_dir_all(&dir);
                            wp = match WorkerProc::spawn(slot) {
                                Ok(w) => w,
                                Err(e) => {
                                    let _ = tx.send(Msg::Broken(e));
                                    return;
                                }
                            };
                        }
                    }
                    Err((tag, last)) => {
                        generation += 1;
                        if last.starts_with("protocol:") {
                            let _ = tx.send(Msg::Broken(last));
                            return;
                        }
                        let (status, diag) = wp.reap();
                        if let Some(rest) = remainder(&item, &tag) {
                            queue.lock().unwrap().push_front(rest);
                        }
                        let _ = tx.send(Msg::Died { tag, status, diag, item: item.clone() });
                        let _ = std::fs::remove_dir_all(&wp.dir);
                        wp = match WorkerProc::spawn(slot) {
                            Ok(w) => w,
                            Err(e) => {
                                let _ = tx.send(Msg::Broken(e));
                                return;
                            }
                        };
                    }
                }
            }
            wp.shutdown();
        });
    }
    rx
}

/// Runs explicit worlds in one fresh worker; Ok((violations, result)) or Err(how the worker died).
pub fn run_worlds_fresh(prop: &str, worlds: &[crate::world::World], wall_s: u64) -> Result<(Vec<VMsg>, RMsg), (String, String)> {
    static FRESH: std::sync::atomic::AtomicUsize = std::sync::atomic::AtomicUsize::new(0);
    let slot = 900 + FRESH.fetch_add(1, std::sync::atomic::Ordering::SeqCst);
    let mut wp = WorkerProc::spawn(slot).map_err(|e| ("harness".to_string(), e))?;
    let item = Item::Worlds { prop: prop.to_string(), worlds: worlds.to_vec(), wall_s };
    if !wp.send(&item) {
        return Err(("harness".into(), "cannot send".into()));
    }
    let mut vs = Vec::new();
    match wp.collect(|v| vs.push(v)) {
        Ok(r) => {
            wp.shutdown();
            Ok((vs, r))
        }
        Err((_tag, last)) => {
            if last.starts_with("protocol:") {
                return Err(("harness".into(), last));
            }
            let (status, diag) = wp.reap();
            let _ = std::fs::remove_dir_all(&wp.dir);
            // a wall-clock hang reports a V before exiting with status 3
            if status == "exit 3" && !vs.is_empty() {
                return Ok((vs, RMsg::default()));
            }
            Err((status, diag))
        }
    }
}
