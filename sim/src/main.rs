//! simc — deterministic simulator for steux/cc6502 (properties C05 and C16).

// The repository's own builder (`src/tests/build.rs`, cfg(test) there) is compiled into the
// harness unchanged; these shims give it the crate-relative paths it expects.
#[allow(unused_imports)]
mod error {
    pub use cc6502::error::*;
}
#[allow(unused_imports)]
mod compile {
    pub use cc6502::compile::*;
}
#[allow(unused_imports)]
mod assemble {
    pub use cc6502::assemble::*;
}
#[allow(unused_imports)]
mod generate {
    pub use cc6502::generate::*;
}
pub use cc6502::Args;
#[allow(dead_code, unused_variables, unused_mut, unused_assignments, clippy::all)]
#[path = "/repo/src/tests/build.rs"]
mod build;

mod corpus;
mod faults;
mod gen;
mod job;
mod oracle;
mod parent;
mod pool;
mod progen;
mod rng;
mod sched;
mod simenv;
mod simio;
mod worker;
mod world;

#[global_allocator]
static GLOBAL: simenv::CountingAlloc = simenv::CountingAlloc;

fn usage() -> i32 {
    eprintln!(
        "usage:\n  simc check <C05|C16> <quick|thorough>\n  simc replay <file.json>\n  simc one <file.c> [args...]   (debug: run one program canonically and print the observation)\n  simc worker --dir <scratch>   (internal)"
    );
    2
}

fn main() {
    let args: Vec<String> = std::env::args().collect();
    let code = match args.get(1).map(|s| s.as_str()) {
        Some("worker") => {
            let dir = args.get(3).cloned().unwrap_or_else(|| "/dev/shm/simc-worker".to_string());
            worker::worker_main(&corpus::verif_root(), &dir)
        }
        Some("check") if args.len() >= 4 => parent::check(&args[2], &args[3]),
        Some("replay") if args.len() >= 3 => parent::replay(&args[2]),
        Some("dbg") if args.len() >= 5 => parent::dbg(&args[2], args[3].parse().unwrap_or(0), args[4].parse().unwrap_or(1)),
        Some("dump") if args.len() >= 4 => parent::dump(&args[2], &args[3]),
        Some("seamtest") => {
            // self-check of the interposed seams: hash keys, wall clock, pid
            let real = std::time::SystemTime::now().duration_since(std::time::UNIX_EPOCH).unwrap().as_secs();
            let real_pid = std::process::id();
            let h = std::thread::spawn(|| {
                simenv::set_thread_hash_key([7u8; 16]);
                simenv::set_sim_clock(Some((1_234_567_890i128 * 1_000_000_000, 4242)));
                let t = std::time::SystemTime::now().duration_since(std::time::UNIX_EPOCH).unwrap().as_secs();
                let pid = std::process::id();
                let mut m = std::collections::HashMap::new();
                for i in 0..8 {
                    m.insert(i, i);
                }
                let order: Vec<i32> = m.keys().cloned().collect();
                (t, pid, order, simenv::getrandom_calls(), simenv::clock_reads())
            });
            let (t, pid, order, gr, cr) = h.join().unwrap();
            println!("real time {} pid {}; simulated time {} pid {}; map order {:?}; getrandom calls {}; clock/pid reads {:?}", real, real_pid, t, pid, order, gr, cr);
            if t == 1_234_567_890 && pid == 4242 && gr >= 1 && real > 1_600_000_000 { 0 } else { 2 }
        }
        Some("progen") if args.len() >= 3 => {
            let p = progen::progen(args[2].parse().unwrap_or(0));
            println!("// args: {:?}", p.args);
            print!("{}", String::from_utf8_lossy(&p.source));
            0
        }
        Some("big") if args.len() >= 3 => {
            let p = progen::big(args[2].parse().unwrap_or(0));
            println!("// args: {:?}", p.args);
            print!("{}", String::from_utf8_lossy(&p.source));
            0
        }
        Some("soup") if args.len() >= 3 => {
            let p = corpus::soup(args[2].parse().unwrap_or(0));
            println!("// args: {:?}", p.args);
            print!("{}", String::from_utf8_lossy(&p.source));
            0
        }
        Some("one") if args.len() >= 3 => parent::one(&args[2], &args[3..]),
        _ => usage(),
    };
    std::process::exit(code);
}
